package nacl

import (
	"bytes"
	"crypto/ed25519"
	"fmt"
	"strings"
	"testing"

	"golang.org/x/crypto/nacl/auth"
	"golang.org/x/crypto/nacl/box"
	"golang.org/x/crypto/nacl/secretbox"
	"golang.org/x/crypto/nacl/sign"
	"pgregory.net/rapid"

	"verif/harness/internal/clibnacl"
	"verif/harness/internal/ev"
	"verif/harness/internal/gen"
	"verif/harness/internal/refnacl"
)

// The seven encodings of Curve25519 points of order 1, 2, 4, 8 (0, 1, the two
// order-8 u-coordinates, p-1, and the non-canonical aliases p, p+1 of 0 and 1).
var c10LowOrder = []string{
	"0000000000000000000000000000000000000000000000000000000000000000",
	"0100000000000000000000000000000000000000000000000000000000000000",
	"e0eb7a7c3b41b8ae1656e3faf19fc46ada098deb9c32b1fd866205165f49b800",
	"5f9c95bca3508c24b1d0b1559c83ef5b04445cc4581c8e86d8224eddd09f1157",
	"ecffffffffffffffffffffffffffffffffffffffffffffffffffffffffffff7f",
	"edffffffffffffffffffffffffffffffffffffffffffffffffffffffffffff7f",
	"eeffffffffffffffffffffffffffffffffffffffffffffffffffffffffffff7f",
}

// c10Prefix draws the `out` argument of the append-style functions: nil, a
// prefix without spare capacity, or a prefix whose capacity already holds the
// result (the no-allocation path).  need is the number of bytes appended.
func c10Prefix(t *rapid.T, label string, need int) ([]byte, string) {
	switch rapid.IntRange(0, 3).Draw(t, label+".kind") {
	case 0, 1:
		return nil, "out=nil"
	case 2:
		n := rapid.IntRange(1, 40).Draw(t, label+".n")
		p := gen.RandBytes(t, label+".b", n)
		return p[:n:n], "out=prefix-nocap"
	default:
		n := rapid.IntRange(0, 40).Draw(t, label+".n")
		spare := rapid.IntRange(0, 8).Draw(t, label+".spare")
		buf := filled(n + need + spare)
		copy(buf, gen.RandBytes(t, label+".b", n))
		return buf[:n], "out=prefix-cap"
	}
}

// c10Append checks the append contract: got == prefix || want, the prefix is
// preserved, and with spare capacity nothing beyond the result was written.
func c10Append(what string, prefix, prefixCopy, got, want []byte) error {
	if len(got) != len(prefixCopy)+len(want) || !bytes.Equal(got[:len(prefixCopy)], prefixCopy) {
		return fmt.Errorf("%s: result is not the given prefix followed by %d bytes (len %d, prefix %d)", what, len(want), len(got), len(prefixCopy))
	}
	if !bytes.Equal(got[len(prefixCopy):], want) {
		i := firstDiff(got[len(prefixCopy):], want)
		return fmt.Errorf("%s: output differs from the expected value at byte %d of %d: got %s want %s", what, i, len(want), ev.Hex(got[len(prefixCopy):]), ev.Hex(want))
	}
	if !bytes.Equal(prefix, prefixCopy) {
		return fmt.Errorf("%s: the prefix bytes of out were modified", what)
	}
	if cap(prefix) >= len(got) && len(got) > 0 {
		// in-place path: bytes of the backing array after the result keep the fill
		rest := prefix[:cap(prefix)][len(got):]
		if !allA5(rest) {
			return fmt.Errorf("%s: wrote beyond the %d appended bytes", what, len(want))
		}
	}
	return nil
}

func c10Flip(t *rapid.T, b []byte) []byte {
	out := append([]byte{}, b...)
	pos := rapid.IntRange(0, len(b)-1).Draw(t, "flip.pos")
	out[pos] ^= 1 << rapid.IntRange(0, 7).Draw(t, "flip.bit")
	return out
}

func c10Secretbox(c *ev.Collector, rt *rapid.T, msg []byte) (string, error) {
	key, _ := draw32(rt, "key")
	nonce := draw24(rt, "nonce")
	want := refnacl.SecretboxSeal(msg, nonce, key)
	if clibnacl.Available {
		if got := clibnacl.SecretboxEasy(msg, nonce, key); !bytes.Equal(got, want) {
			harnessTrouble(c, rt, "libsodium crypto_secretbox_easy and the reference disagree (len=%d)", len(msg))
		}
	}
	prefix, pc := c10Prefix(rt, "out", len(msg)+secretbox.Overhead)
	pcopy := append([]byte{}, prefix...)
	k, n := key, nonce
	mIn := drawIn(rt, "msgbuf", msg)
	m := mIn.s
	got := secretbox.Seal(prefix, m, &n, &k)
	if err := c10Append(fmt.Sprintf("secretbox.Seal(len=%d, nonce=%x, key=%x)", len(msg), nonce, key), prefix, pcopy, got, want); err != nil {
		return pc, err
	}
	if !mIn.intact() || k != key || n != nonce {
		return pc, fmt.Errorf("secretbox.Seal modified an input (or the spare capacity behind the message)")
	}
	// open a box made by the other implementation
	prefix2, pc2 := c10Prefix(rt, "out2", len(msg))
	p2copy := append([]byte{}, prefix2...)
	boxIn := drawIn(rt, "boxbuf", want)
	opened, ok := secretbox.Open(prefix2, boxIn.s, &n, &k)
	if !boxIn.intact() {
		return pc, fmt.Errorf("secretbox.Open modified its input box (or the spare capacity behind it)")
	}
	if !ok {
		return pc, fmt.Errorf("secretbox.Open rejected a valid crypto_secretbox_easy value (len=%d, nonce=%x, key=%x)", len(msg), nonce, key)
	}
	if err := c10Append("secretbox.Open", prefix2, p2copy, opened, msg); err != nil {
		return pc, err
	}
	// forged box
	bad := c10Flip(rt, want)
	if o, ok := secretbox.Open(nil, bad, &n, &k); ok || o != nil {
		return pc, fmt.Errorf("secretbox.Open accepted a modified box (len=%d)", len(msg))
	}
	if short := rapid.IntRange(0, 15).Draw(rt, "short"); true {
		if o, ok := secretbox.Open(nil, want[:short], &n, &k); ok || o != nil {
			return pc, fmt.Errorf("secretbox.Open accepted a %d-byte box", short)
		}
	}
	return pc + "|" + pc2, nil
}

func c10Peer(rt *rapid.T) (pk, sk [32]byte, class string, honest bool) {
	switch rapid.IntRange(0, 9).Draw(rt, "peerClass") {
	case 0, 1:
		copy(pk[:], unhex(rapid.SampledFrom(c10LowOrder).Draw(rt, "loworder")))
		if rapid.Bool().Draw(rt, "topbit") {
			pk[31] |= 0x80
		}
		return pk, sk, "peer=low-order", false
	case 2:
		copy(pk[:], gen.RandBytes(rt, "rawpk", 32))
		return pk, sk, "peer=arbitrary-32-bytes", false
	default:
		copy(sk[:], gen.RandBytes(rt, "skB", 32))
		return refnacl.ScalarBaseMult(sk), sk, "peer=honest", true
	}
}

// c10ReusePeers draws up to two further peer keys for calls that reuse one
// sharedKey array: the same peer again and/or a low-order point.
func c10ReusePeers(rt *rapid.T, first [32]byte) [][32]byte {
	var out [][32]byte
	switch rapid.IntRange(0, 3).Draw(rt, "reusePeers") {
	case 0:
		var lo [32]byte
		copy(lo[:], unhex(rapid.SampledFrom(c10LowOrder).Draw(rt, "reuseLow")))
		out = append(out, lo)
	case 1:
		out = append(out, first)
	case 2:
		var lo [32]byte
		copy(lo[:], unhex(rapid.SampledFrom(c10LowOrder).Draw(rt, "reuseLow")))
		out = append(out, lo, first)
	}
	return out
}

func c10Box(c *ev.Collector, rt *rapid.T, msg []byte) (string, error) {
	var skA [32]byte
	copy(skA[:], gen.RandBytes(rt, "skA", 32))
	pkA := refnacl.ScalarBaseMult(skA)
	nonce := draw24(rt, "nonce")
	pkB, skB, peerClass, honest := c10Peer(rt)

	// key generation reads 32 bytes of randomness as the secret key
	gpk, gsk, err := box.GenerateKey(&fixedReader{append([]byte{}, skA[:]...)})
	if err != nil || *gsk != skA || *gpk != pkA {
		return peerClass, fmt.Errorf("box.GenerateKey(rand=%x) = (%x, %x, %v), want public key %x", skA, gpk, gsk, err, pkA)
	}

	shared := refnacl.BoxBeforeNM(pkB, skA)
	want := refnacl.SecretboxSeal(msg, nonce, shared)
	refused := false
	if clibnacl.Available {
		k, ok := clibnacl.BoxBeforeNM(pkB, skA)
		if !ok {
			// libsodium refuses peers whose shared secret is all-zero; only
			// the reference model is compared then.
			refused = true
			if !refnacl.SharedIsZero(pkB, skA) {
				harnessTrouble(c, rt, "libsodium refused peer key %x but the X25519 output is not zero", pkB)
			}
		} else {
			if k != shared {
				harnessTrouble(c, rt, "libsodium crypto_box_beforenm and the reference disagree (pk=%x sk=%x)", pkB, skA)
			}
			if got, ok := clibnacl.BoxEasy(msg, nonce, pkB, skA); !ok || !bytes.Equal(got, want) {
				harnessTrouble(c, rt, "libsodium crypto_box_easy and the reference disagree")
			}
		}
	}
	if refused {
		peerClass += "(libsodium-refuses)"
	}

	// The destination of Precompute holds stale bytes (or the result of an
	// earlier call): the shared key must not depend on them.
	k1 := stale32()
	if rapid.Bool().Draw(rt, "k1zero") {
		k1 = [32]byte{}
	}
	p, s := pkB, skA
	box.Precompute(&k1, &p, &s)
	if k1 != shared {
		return peerClass, fmt.Errorf("box.Precompute(peer=%x, priv=%x) = %x, crypto_box_beforenm gives %x", pkB, skA, k1, shared)
	}
	if p != pkB || s != skA {
		return peerClass, fmt.Errorf("box.Precompute modified a key")
	}
	// same destination variable reused for a run of calls, as in a loop over peers
	reuse := k1
	for i, peer := range c10ReusePeers(rt, pkB) {
		before := reuse
		pp := peer
		box.Precompute(&reuse, &pp, &s)
		if want := refnacl.BoxBeforeNM(peer, skA); reuse != want {
			return peerClass, fmt.Errorf("box.Precompute into a reused sharedKey array (call %d, previous contents %x, peer=%x, priv=%x) = %x, crypto_box_beforenm gives %x", i+2, before, peer, skA, reuse, want)
		}
	}
	if honest {
		k2 := stale32()
		box.Precompute(&k2, &pkA, &skB)
		if k2 != k1 {
			return peerClass, fmt.Errorf("box.Precompute is not symmetric: (B,a) -> %x, (A,b) -> %x (a=%x b=%x)", k1, k2, skA, skB)
		}
	}

	prefix, pc := c10Prefix(rt, "out", len(msg)+box.Overhead)
	pcopy := append([]byte{}, prefix...)
	n := nonce
	mIn := drawIn(rt, "msgbuf", msg)
	got := box.Seal(prefix, mIn.s, &n, &p, &s)
	if !mIn.intact() {
		return peerClass, fmt.Errorf("box.Seal modified its message (or the spare capacity behind it)")
	}
	if err := c10Append(fmt.Sprintf("box.Seal(len=%d, nonce=%x, peer=%x, priv=%x)", len(msg), nonce, pkB, skA), prefix, pcopy, got, want); err != nil {
		return peerClass, err
	}
	got = box.SealAfterPrecomputation(nil, msg, &n, &k1)
	if !bytes.Equal(got, want) {
		return peerClass, fmt.Errorf("box.SealAfterPrecomputation(len=%d) differs from crypto_box_easy_afternm", len(msg))
	}

	// the receiving side opens the other implementation's box
	var opened []byte
	var ok bool
	if honest {
		opened, ok = box.Open(nil, want, &n, &pkA, &skB)
	} else {
		// no secret key for the peer: open with the precomputed key instead
		opened, ok = box.OpenAfterPrecomputation(nil, want, &n, &k1)
	}
	if !ok || !bytes.Equal(opened, msg) {
		return peerClass, fmt.Errorf("box.Open rejected / mis-decrypted a valid crypto_box_easy value (len=%d, ok=%v)", len(msg), ok)
	}
	prefix2, pc2 := c10Prefix(rt, "out2", len(msg))
	p2copy := append([]byte{}, prefix2...)
	opened, ok = box.OpenAfterPrecomputation(prefix2, want, &n, &k1)
	if !ok {
		return peerClass, fmt.Errorf("box.OpenAfterPrecomputation rejected a valid box (len=%d)", len(msg))
	}
	if err := c10Append("box.OpenAfterPrecomputation", prefix2, p2copy, opened, msg); err != nil {
		return peerClass, err
	}
	bad := c10Flip(rt, want)
	if o, ok := box.OpenAfterPrecomputation(nil, bad, &n, &k1); ok || o != nil {
		return peerClass, fmt.Errorf("box.OpenAfterPrecomputation accepted a modified box (len=%d)", len(msg))
	}
	return peerClass + "|" + pc + "|" + pc2, nil
}

func c10Anonymous(c *ev.Collector, rt *rapid.T, msg []byte) (string, error) {
	var sk, esk, esk2 [32]byte
	copy(sk[:], gen.RandBytes(rt, "sk", 32))
	copy(esk[:], gen.RandBytes(rt, "esk", 32))
	copy(esk2[:], gen.RandBytes(rt, "esk2", 32))
	pk := refnacl.ScalarBaseMult(sk)
	class := "recipient=honest"
	lowOrder := rapid.IntRange(0, 11).Draw(rt, "lowRecipient") == 0
	if lowOrder {
		copy(pk[:], unhex(rapid.SampledFrom(c10LowOrder).Draw(rt, "loworder")))
		class = "recipient=low-order"
	}
	want := refnacl.SealAnonymous(msg, pk, esk)

	prefix, pc := c10Prefix(rt, "out", len(msg)+box.AnonymousOverhead)
	pcopy := append([]byte{}, prefix...)
	rd := &fixedReader{append([]byte{}, esk[:]...)}
	p := pk
	mIn := drawIn(rt, "msgbuf", msg)
	got, err := box.SealAnonymous(prefix, mIn.s, &p, rd)
	if !mIn.intact() {
		return class, fmt.Errorf("box.SealAnonymous modified its message (or the spare capacity behind it)")
	}
	if err != nil {
		return class, fmt.Errorf("box.SealAnonymous(len=%d) error %v", len(msg), err)
	}
	if len(rd.b) != 0 {
		return class, fmt.Errorf("box.SealAnonymous read %d random bytes, want 32", 32-len(rd.b))
	}
	if err := c10Append(fmt.Sprintf("box.SealAnonymous(len=%d, recipient=%x, ephemeral secret=%x)", len(msg), pk, esk), prefix, pcopy, got, want); err != nil {
		return class, err
	}
	if lowOrder {
		// libsodium refuses such recipients; nothing more to compare
		return class + "|" + pc, nil
	}
	sealed := got[len(pcopy):]
	other := refnacl.SealAnonymous(msg, pk, esk2)
	if clibnacl.Available {
		if m, ok := clibnacl.BoxSealOpen(sealed, pk, sk); !ok || !bytes.Equal(m, msg) {
			// sealed equals the reference value here, so this is an oracle disagreement
			harnessTrouble(c, rt, "libsodium crypto_box_seal_open rejects the reference's sealed box")
		}
		theirs := clibnacl.BoxSealDet(msg, pk, esk2)
		if !bytes.Equal(theirs, other) {
			harnessTrouble(c, rt, "libsodium crypto_box_seal (forced ephemeral key) and the reference disagree")
		}
	}
	prefix2, pc2 := c10Prefix(rt, "out2", len(msg))
	p2copy := append([]byte{}, prefix2...)
	otherIn := drawIn(rt, "boxbuf", other)
	opened, ok := box.OpenAnonymous(prefix2, otherIn.s, &p, &sk)
	if !otherIn.intact() {
		return class, fmt.Errorf("box.OpenAnonymous modified its input box (or the spare capacity behind it)")
	}
	if !ok {
		return class, fmt.Errorf("box.OpenAnonymous rejected a valid crypto_box_seal value (len=%d, recipient sk=%x, ephemeral sk=%x)", len(msg), sk, esk2)
	}
	if err := c10Append("box.OpenAnonymous", prefix2, p2copy, opened, msg); err != nil {
		return class, err
	}
	bad := c10Flip(rt, other)
	if o, ok := box.OpenAnonymous(nil, bad, &p, &sk); ok || o != nil {
		return class, fmt.Errorf("box.OpenAnonymous accepted a modified sealed box (len=%d)", len(msg))
	}
	short := rapid.IntRange(0, box.AnonymousOverhead-1).Draw(rt, "short")
	if o, ok := box.OpenAnonymous(nil, other[:short], &p, &sk); ok || o != nil {
		return class, fmt.Errorf("box.OpenAnonymous accepted a %d-byte box", short)
	}
	return class + "|" + pc + "|" + pc2, nil
}

func c10Sign(c *ev.Collector, rt *rapid.T, msg []byte) (string, error) {
	seed := gen.RandBytes(rt, "seed", 32)
	std := ed25519.NewKeyFromSeed(seed) // seed || public key, RFC 8032
	var priv [64]byte
	var pub [32]byte
	copy(priv[:], std)
	copy(pub[:], std[32:])
	gpub, gpriv, err := sign.GenerateKey(&fixedReader{append([]byte{}, seed...)})
	if err != nil || *gpriv != priv || *gpub != pub {
		return "", fmt.Errorf("sign.GenerateKey(rand=%x) = (%x, %x, %v), want seed||pk = %x", seed, gpub, gpriv, err, priv)
	}
	// inconsistent key material: the stored public half is not the seed's public key
	keyClass := "key=consistent"
	if rapid.IntRange(0, 2).Draw(rt, "inconsistentKey") == 0 {
		half, cl := c10DrawSignHalf(rt, seed)
		keyClass = cl
		differs, err := c10SignKeyMaterial(seed, half, msg)
		if err != nil {
			if strings.HasPrefix(err.Error(), "harness:") {
				harnessTrouble(c, rt, "%v", err)
			}
			return cl, err
		}
		if differs {
			c.Class("sign.Open: libsodium and crypto/ed25519 differ on this public key (counted, not asserted)")
		}
	}
	want := append(ed25519.Sign(std, msg), msg...) // crypto_sign: signature || message
	if clibnacl.Available {
		var s32 [32]byte
		copy(s32[:], seed)
		spk, ssk := clibnacl.SignSeedKeypair(s32)
		if spk != pub || ssk != priv {
			harnessTrouble(c, rt, "libsodium crypto_sign_seed_keypair and crypto/ed25519 disagree on seed %x", seed)
		}
		if got := clibnacl.Sign(msg, ssk); !bytes.Equal(got, want) {
			harnessTrouble(c, rt, "libsodium crypto_sign and crypto/ed25519 disagree")
		}
	}
	prefix, pc := c10Prefix(rt, "out", len(msg)+sign.Overhead)
	pcopy := append([]byte{}, prefix...)
	pr := priv
	mIn := drawIn(rt, "msgbuf", msg)
	got := sign.Sign(prefix, mIn.s, &pr)
	if !mIn.intact() {
		return pc, fmt.Errorf("sign.Sign modified its message (or the spare capacity behind it)")
	}
	if err := c10Append(fmt.Sprintf("sign.Sign(len=%d, seed=%x)", len(msg), seed), prefix, pcopy, got, want); err != nil {
		return pc, err
	}
	if pr != priv {
		return pc, fmt.Errorf("sign.Sign modified the private key")
	}
	prefix2, pc2 := c10Prefix(rt, "out2", len(msg))
	p2copy := append([]byte{}, prefix2...)
	smIn := drawIn(rt, "smbuf", want)
	opened, ok := sign.Open(prefix2, smIn.s, &pub)
	if !smIn.intact() {
		return pc, fmt.Errorf("sign.Open modified its input (or the spare capacity behind it)")
	}
	if !ok {
		return pc, fmt.Errorf("sign.Open rejected a valid crypto_sign value (len=%d, seed=%x)", len(msg), seed)
	}
	if err := c10Append("sign.Open", prefix2, p2copy, opened, msg); err != nil {
		return pc, err
	}
	bad := c10Flip(rt, want)
	if o, ok := sign.Open(nil, bad, &pub); ok || o != nil {
		return pc, fmt.Errorf("sign.Open accepted a modified signed message (len=%d)", len(msg))
	}
	short := rapid.IntRange(0, sign.Overhead-1).Draw(rt, "short")
	if o, ok := sign.Open(nil, want[:short], &pub); ok || o != nil {
		return pc, fmt.Errorf("sign.Open accepted a %d-byte input", short)
	}
	return keyClass + "|" + pc + "|" + pc2, nil
}

func c10Auth(c *ev.Collector, rt *rapid.T, msg []byte) (string, error) {
	key, kc := draw32(rt, "key")
	want := refnacl.Auth(msg, key)
	if clibnacl.Available {
		if clibnacl.Auth(msg, key) != want || !clibnacl.AuthVerify(want, msg, key) {
			harnessTrouble(c, rt, "libsodium crypto_auth and HMAC-SHA-512-256 from crypto/hmac disagree")
		}
	}
	k := key
	mIn := drawIn(rt, "msgbuf", msg)
	got := auth.Sum(mIn.s, &k)
	if !mIn.intact() {
		return kc, fmt.Errorf("auth.Sum modified its message (or the spare capacity behind it)")
	}
	if got == nil || *got != want {
		return kc, fmt.Errorf("auth.Sum(len=%d, key=%x) = %x, crypto_auth gives %x", len(msg), key, got, want)
	}
	if !auth.Verify(want[:], msg, &k) {
		return kc, fmt.Errorf("auth.Verify rejected a valid crypto_auth tag (len=%d, key=%x)", len(msg), key)
	}
	bad := c10Flip(rt, want[:])
	if auth.Verify(bad, msg, &k) {
		return kc, fmt.Errorf("auth.Verify accepted a modified tag")
	}
	n := rapid.SampledFrom([]int{0, 1, 16, 31, 33, 64}).Draw(rt, "taglen")
	full := refnacl.Auth(msg, key)
	long := append(full[:], make([]byte, 32)...)
	if auth.Verify(long[:n], msg, &k) {
		return kc, fmt.Errorf("auth.Verify accepted a %d-byte digest", n)
	}
	if len(msg) > 0 {
		if auth.Verify(want[:], c10Flip(rt, msg), &k) {
			return kc, fmt.Errorf("auth.Verify accepted a tag for a different message")
		}
	}
	return kc, nil
}

func TestC10(t *testing.T) {
	c := ev.New("C10", "non-trivial: message longer than 32 bytes (beyond the first Salsa20 block split), or an anonymous (sealed) box, or a box opened that was produced by the other implementation; distinct = (function, |m| class relative to 16/32/64, out-buffer classes, key class)")
	defer c.Flush(t)
	c.Oracle("refnacl composition: XSalsa20 + Poly1305 (math/big) + HSalsa20 + X25519 (math/big) + BLAKE2b, KAT-checked against the NaCl paper's box example; crypto/ed25519 and crypto/hmac for sign/auth")
	for _, f := range []func() error{refnacl.SelfTestSalsa, refnacl.SelfTestNaCl} {
		if err := f(); err != nil {
			c.Inconclusive(err.Error())
			t.Fatal(err)
		}
	}
	if clibnacl.Available {
		c.Oracle(clibnacl.Name() + ": crypto_secretbox_easy, crypto_box_easy/beforenm, crypto_box_seal (forced ephemeral key)/seal_open, crypto_sign, crypto_auth")
	} else {
		c.Assumption("libsodium not linked (built without -tags clib): the reference composition alone decides interoperability")
	}
	if secretbox.Overhead != 16 || box.Overhead != 16 || box.AnonymousOverhead != 48 || sign.Overhead != 64 || auth.Size != 32 || auth.KeySize != 32 {
		what := "Overhead/Size constants differ from crypto_secretbox_MACBYTES=16, crypto_box_SEALBYTES=48, crypto_sign_BYTES=64, crypto_auth_BYTES=32"
		c.Violation(what, "")
		t.Fatalf("VF-VIOLATION: property=C10 %s", what)
	}

	rapid.Check(t, func(rt *rapid.T) {
		stc := setStale(rt)
		fn := rapid.SampledFrom([]string{"box", "anonymous", "secretbox", "secretbox", "box", "sign", "auth"}).Draw(rt, "fn")
		n, lc := lenMix(rt, "len", 2000, 35, 16, 32, 64)
		msg, fc := gen.Bytes(rt, "msg", n)
		var sub string
		var err error
		switch fn {
		case "secretbox":
			sub, err = c10Secretbox(c, rt, msg)
			if err == nil {
				err = c10Equivalences(rt, msg)
				c.Class("equiv:secretbox==box.AfterPrecomputation")
			}
		case "box":
			sub, err = c10Box(c, rt, msg)
		case "anonymous":
			sub, err = c10Anonymous(c, rt, msg)
		case "sign":
			sub, err = c10Sign(c, rt, msg)
		case "auth":
			sub, err = c10Auth(c, rt, msg)
		}
		if err != nil {
			rt.Fatalf("VF-VIOLATION: property=C10 %v", err)
		}
		mc := "m<=32"
		switch {
		case n == 0:
			mc = "m=0"
		case n > 64:
			mc = "m>64"
		case n > 32:
			mc = "m=33..64"
		case n == 32:
			mc = "m=32"
		case n > 16:
			mc = "m=17..31"
		}
		nontrivial := n > 32 || fn != "auth"
		key := fmt.Sprintf("%s|%s|%s|%s", fn, mc, gen.LenClass(n, 64), sub)
		c.Case(nontrivial, key, "fn="+fn, mc, lc, fc, stc)
		for _, part := range splitBar(sub) {
			c.Class(fn + ":" + part)
		}
		if c.WantSample() {
			c.Sample(map[string]any{"fn": fn, "len": n, "classes": sub, "msg": ev.Hex(msg)})
		}
	})

	// Directed table: every message length across the first-block split (and,
	// in the thorough tier, across many Salsa20 blocks) with fixed keys, for
	// each function; the expensive X25519 reference values are computed once.
	var skA, skB, esk, key [32]byte
	var nonce [24]byte
	for i := 0; i < 32; i++ {
		skA[i], skB[i], esk[i], key[i] = byte(7*i+1), byte(11*i+2), byte(13*i+3), byte(17*i+4)
	}
	for i := range nonce {
		nonce[i] = byte(19*i + 5)
	}
	staleSeed = 0x9e3779b97f4a7c15
	pkA, pkB, epk := refnacl.ScalarBaseMult(skA), refnacl.ScalarBaseMult(skB), refnacl.ScalarBaseMult(esk)
	// every low-order peer (and its top-bit alias) into a zero, a stale and a
	// reused destination array
	{
		zeroShared := refnacl.HSalsa20([16]byte{}, [32]byte{}, refnacl.Sigma)
		reused := refnacl.BoxBeforeNM(pkB, skA)
		for _, lo := range c10LowOrder {
			for _, top := range []byte{0, 0x80} {
				var peer [32]byte
				copy(peer[:], unhex(lo))
				peer[31] |= top
				for i, dst := range [][32]byte{{}, stale32(), reused} {
					name := []string{"zero", "stale", "reused"}[i]
					d := dst
					box.Precompute(&d, &peer, &skA)
					if d != zeroShared {
						what := fmt.Sprintf("box.Precompute(low-order peer %x) into a %s destination (%x) = %x, crypto_box_beforenm's definition gives HSalsa20(0^32) = %x", peer, name, dst, d, zeroShared)
						c.Violation(what, "")
						t.Fatalf("VF-VIOLATION: property=C10 %s", what)
					}
					c.Case(true, fmt.Sprintf("table|loworder|%s|%d|%s", lo[:8], top, name), "table:low-order-precompute")
				}
			}
		}
	}
	shared := refnacl.BoxBeforeNM(pkB, skA)
	sealShared := refnacl.BoxBeforeNM(pkB, esk)
	sealNonce := refnacl.SealNonce(epk, pkB)
	edPriv := ed25519.NewKeyFromSeed(key[:])
	var sPriv [64]byte
	var sPub [32]byte
	copy(sPriv[:], edPriv)
	copy(sPub[:], edPriv[32:])
	maxLen := ev.Scale(100, 700)
	fail := func(format string, args ...any) {
		what := fmt.Sprintf(format, args...)
		c.Violation(what, "")
		t.Fatalf("VF-VIOLATION: property=C10 %s", what)
	}
	ran := 0
	for l := 0; l <= maxLen; l++ {
		if !ev.Mine(l) {
			continue
		}
		msg := make([]byte, l)
		for i := range msg {
			msg[i] = byte(i*29 + l)
		}
		// secretbox
		want := refnacl.SecretboxSeal(msg, nonce, key)
		if clibnacl.Available && !bytes.Equal(clibnacl.SecretboxEasy(msg, nonce, key), want) {
			c.Inconclusive("table: libsodium and reference secretbox disagree")
			t.Fatal("VF-INCONCLUSIVE: table: libsodium and reference secretbox disagree")
		}
		if got := secretbox.Seal(nil, msg, &nonce, &key); !bytes.Equal(got, want) {
			fail("table: secretbox.Seal(len=%d) differs from crypto_secretbox_easy at byte %d", l, firstDiff(got, want))
		}
		if m, ok := secretbox.Open(nil, want, &nonce, &key); !ok || !bytes.Equal(m, msg) {
			fail("table: secretbox.Open(len=%d) rejected or mis-decrypted a valid box", l)
		}
		// box, both directions
		want = refnacl.SecretboxSeal(msg, nonce, shared)
		if got := box.Seal(nil, msg, &nonce, &pkB, &skA); !bytes.Equal(got, want) {
			fail("table: box.Seal(len=%d) differs from crypto_box_easy at byte %d", l, firstDiff(got, want))
		}
		if m, ok := box.Open(nil, want, &nonce, &pkA, &skB); !ok || !bytes.Equal(m, msg) {
			fail("table: box.Open(len=%d) rejected or mis-decrypted a valid box", l)
		}
		// sealed box
		want = append(append([]byte{}, epk[:]...), refnacl.SecretboxSeal(msg, sealNonce, sealShared)...)
		if clibnacl.Available && !bytes.Equal(clibnacl.BoxSealDet(msg, pkB, esk), want) {
			c.Inconclusive("table: libsodium and reference sealed box disagree")
			t.Fatal("VF-INCONCLUSIVE: table: libsodium and reference sealed box disagree")
		}
		got, err := box.SealAnonymous(nil, msg, &pkB, &fixedReader{append([]byte{}, esk[:]...)})
		if err != nil || !bytes.Equal(got, want) {
			fail("table: box.SealAnonymous(len=%d) err=%v differs from crypto_box_seal at byte %d", l, err, firstDiff(got, want))
		}
		if m, ok := box.OpenAnonymous(nil, want, &pkB, &skB); !ok || !bytes.Equal(m, msg) {
			fail("table: box.OpenAnonymous(len=%d) rejected or mis-decrypted a valid sealed box", l)
		}
		// sign, auth
		want = append(ed25519.Sign(edPriv, msg), msg...)
		if got := sign.Sign(nil, msg, &sPriv); !bytes.Equal(got, want) {
			fail("table: sign.Sign(len=%d) differs from crypto_sign", l)
		}
		if m, ok := sign.Open(nil, want, &sPub); !ok || !bytes.Equal(m, msg) {
			fail("table: sign.Open(len=%d) rejected a valid signed message", l)
		}
		tag := refnacl.Auth(msg, key)
		if got := auth.Sum(msg, &key); *got != tag || !auth.Verify(tag[:], msg, &key) {
			fail("table: auth.Sum/Verify(len=%d) differ from crypto_auth", l)
		}
		mc := "table:m<=32"
		if l > 32 {
			mc = "table:m>32"
		}
		c.Case(true, fmt.Sprintf("table|%d", l), mc)
		c.Evals(8)
		ran++
	}
	c.Exhaustive(fmt.Sprintf("every message length 0..%d x {secretbox, box, sealed box, sign, auth} with fixed keys", maxLen), maxLen+1)

	c10SignKeyTable(c, t)

	c10LongLengths(c, t)

	c10Concurrent(c, t)
}

func splitBar(s string) []string {
	var out []string
	for _, p := range bytes.Split([]byte(s), []byte("|")) {
		if len(p) > 0 {
			out = append(out, string(p))
		}
	}
	return out
}
