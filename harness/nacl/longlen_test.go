package nacl

import (
	"bytes"
	"encoding/binary"
	"fmt"
	"os"
	"sort"
	"testing"

	"golang.org/x/crypto/nacl/box"
	"golang.org/x/crypto/nacl/secretbox"
	"golang.org/x/crypto/salsa20"

	"verif/harness/internal/clibnacl"
	"verif/harness/internal/ev"
	"verif/harness/internal/refnacl"
)

// Lengths at which internal counters carry or chunking constants bite: the
// Salsa20 block counter's low byte wraps after 256 blocks = 16384 bytes (its
// low 16 bits after 4 MiB), and implementations that work in chunks tend to
// use power-of-two chunk sizes.  The 0..2000 range of the random part never
// gets there.
func longLengths() []int {
	set := map[int]bool{}
	for _, p := range []int{4096, 8192, 16384, 32768, 65536} {
		for _, d := range []int{0, 1, 31, 32, 33, 63, 64, 65} {
			set[p+d] = true
			set[p-d] = true
		}
	}
	// around the low-byte wrap, also shifted by secretbox's 32-byte first-block offset
	for d := -64; d <= 96; d += 16 {
		set[16384+d] = true
		set[16384+32+d] = true
	}
	for _, d := range []int{-1, 1, 33} {
		set[16384+32+d] = true
	}
	if ev.Thorough() && os.Getenv("VF_RACE") != "1" {
		for _, d := range []int{-64, -33, -32, -1, 0, 1, 32, 33, 64, 96} {
			set[64<<16+d] = true // 4 MiB: the counter's low 16 bits wrap
		}
	}
	var out []int
	for l := range set {
		out = append(out, l)
	}
	sort.Ints(out)
	return out
}

func patternMsg(n, salt int) []byte {
	m := make([]byte, n)
	for i := range m {
		m[i] = byte(i*131 + i>>11 + salt)
	}
	return m
}

// c10LongLengths: Seal / SealAfterPrecomputation / SealAnonymous and the Open
// functions at the long lengths, byte-for-byte against the reference (and
// libsodium) values.
func c10LongLengths(c *ev.Collector, t *testing.T) {
	var skA, skB, esk, key [32]byte
	var nonce [24]byte
	for i := 0; i < 32; i++ {
		skA[i], skB[i], esk[i], key[i] = byte(5*i+9), byte(3*i+8), byte(7*i+6), byte(9*i+4)
	}
	for i := range nonce {
		nonce[i] = byte(23*i + 1)
	}
	pkA, pkB, epk := refnacl.ScalarBaseMult(skA), refnacl.ScalarBaseMult(skB), refnacl.ScalarBaseMult(esk)
	shared := refnacl.BoxBeforeNM(pkB, skA)
	sealShared := refnacl.BoxBeforeNM(pkB, esk)
	sealNonce := refnacl.SealNonce(epk, pkB)
	fail := func(format string, args ...any) {
		what := fmt.Sprintf(format, args...)
		c.Violation(what, "")
		t.Fatalf("VF-VIOLATION: property=C10 %s", what)
	}
	lens := longLengths()
	for i, l := range lens {
		if !ev.Mine(i) {
			continue
		}
		msg := patternMsg(l, i)
		want := refnacl.SecretboxSeal(msg, nonce, key)
		if clibnacl.Available && !bytes.Equal(clibnacl.SecretboxEasy(msg, nonce, key), want) {
			c.Inconclusive("long lengths: libsodium and reference secretbox disagree")
			t.Fatal("VF-INCONCLUSIVE: long lengths: libsodium and reference secretbox disagree")
		}
		if got := secretbox.Seal(nil, msg, &nonce, &key); !bytes.Equal(got, want) {
			fail("secretbox.Seal(len=%d) differs from crypto_secretbox_easy: first differing ciphertext byte is message byte %d (tag equal: %v)", l, firstDiff(got[min(16, len(got)):], want[16:]), bytes.Equal(got[:min(16, len(got))], want[:16]))
		}
		if m, ok := secretbox.Open(nil, want, &nonce, &key); !ok || !bytes.Equal(m, msg) {
			fail("secretbox.Open(len=%d) rejected or mis-decrypted (from byte %d) a valid crypto_secretbox_easy box", l, firstDiff(m, msg))
		}
		want = refnacl.SecretboxSeal(msg, nonce, shared)
		if got := box.Seal(nil, msg, &nonce, &pkB, &skA); !bytes.Equal(got, want) {
			fail("box.Seal(len=%d) differs from crypto_box_easy from box byte %d on", l, firstDiff(got, want))
		}
		if got := box.SealAfterPrecomputation(nil, msg, &nonce, &shared); !bytes.Equal(got, want) {
			fail("box.SealAfterPrecomputation(len=%d) differs from crypto_box_easy_afternm from box byte %d on", l, firstDiff(got, want))
		}
		if m, ok := box.Open(nil, want, &nonce, &pkA, &skB); !ok || !bytes.Equal(m, msg) {
			fail("box.Open(len=%d) rejected or mis-decrypted a valid crypto_box_easy box", l)
		}
		want = append(append([]byte{}, epk[:]...), refnacl.SecretboxSeal(msg, sealNonce, sealShared)...)
		got, err := box.SealAnonymous(nil, msg, &pkB, &fixedReader{append([]byte{}, esk[:]...)})
		if err != nil || !bytes.Equal(got, want) {
			fail("box.SealAnonymous(len=%d) err=%v differs from crypto_box_seal from byte %d on", l, err, firstDiff(got, want))
		}
		if m, ok := box.OpenAnonymous(nil, want, &pkB, &skB); !ok || !bytes.Equal(m, msg) {
			fail("box.OpenAnonymous(len=%d) rejected or mis-decrypted a valid crypto_box_seal box", l)
		}
		cl := "long:power-of-two+-"
		switch {
		case l >= 1<<22-100:
			cl = "long:~4MiB (counter low 16 bits wrap)"
		case l >= 16384-64 && l <= 16384+32+96:
			cl = "long:~16384 (counter low byte wraps)"
		}
		c.Case(true, fmt.Sprintf("long|%d", l), cl)
		c.Evals(7)
	}
	c.Exhaustive("long message lengths (powers of two 4096..65536 +-{0,1,31,32,33,63,64,65}, 16384-64..16384+128 in steps of 16, thorough: 4 MiB +-) x {secretbox, box, afternm, sealed box} seal and open", len(lens))
}

// c09LongLengths: the stream functions at the long lengths, combined with
// starting block counters next to byte / 16-bit / 32-bit wraps.
func c09LongLengths(c *ev.Collector, t *testing.T) {
	lens := longLengths()
	ctrs := []uint64{0, 1, 0xc0, 0xff, 0xff00, 0xffff, 0xffffff00, 1<<32 - 257, 1<<32 - 1, 0xffffffffffffff00}
	var key [32]byte
	for i := range key {
		key[i] = byte(0x2b*i + 5)
	}
	idx := 0
	for li, l := range lens {
		in := patternMsg(l, li)
		for ci, ctr := range ctrs {
			idx++
			// quick: each length with two of the counters; thorough: all (4 MiB lengths: two)
			if !ev.Mine(idx) || ((!ev.Thorough() || l > 1<<20) && ci != li%len(ctrs) && ci != (li+3)%len(ctrs)) {
				continue
			}
			var counter [16]byte
			copy(counter[:8], "longlens")
			binary.LittleEndian.PutUint64(counter[8:], ctr)
			if err := c09Raw(key, counter, in, idx%2 == 0, 1); err != nil {
				c.Violation(err.Error(), "")
				t.Fatalf("VF-VIOLATION: property=C09 %v", err)
			}
			c.Case(true, fmt.Sprintf("long|%d|%x", l, ctr), "long:salsa.XORKeyStream length x start counter")
		}
		if !ev.Mine(li) {
			continue
		}
		for _, nl := range []int{8, 24} {
			nonce := patternMsg(nl, li)
			if err := c09Nonce(key, nonce, in, li%2 == 0, 1); err != nil {
				c.Violation(err.Error(), "")
				t.Fatalf("VF-VIOLATION: property=C09 %v", err)
			}
			if clibnacl.Available && nl == 24 {
				var n24 [24]byte
				copy(n24[:], nonce)
				if !bytes.Equal(clibnacl.StreamXSalsa20XORIC(in, n24, 0, key), refnacl.XSalsa20XOR(in, n24, key)) {
					c.Inconclusive("long lengths: libsodium and reference xsalsa20 disagree")
					t.Fatal("VF-INCONCLUSIVE: long lengths: libsodium and reference xsalsa20 disagree")
				}
			}
			c.Case(true, fmt.Sprintf("long|nonce%d|%d", nl, l), "long:salsa20.XORKeyStream length")
		}
	}
	_ = salsa20.XORKeyStream
	c.Exhaustive("long stream lengths (as C10) x nonce sizes 8/24, and x start counters next to byte/16-bit/32-bit/64-bit wraps", len(lens))
}
