package nacl

import (
	"bytes"
	"crypto/aes"
	"fmt"
	"testing"

	"golang.org/x/crypto/xts"
	"pgregory.net/rapid"

	"verif/harness/internal/clibnacl"
	"verif/harness/internal/ev"
	"verif/harness/internal/gen"
	"verif/harness/internal/refnacl"
)

func c13Sector(t *rapid.T) (uint64, string) {
	switch rapid.IntRange(0, 11).Draw(t, "sectorClass") {
	case 0:
		return 1<<64 - 1, "sector=2^64-1"
	case 1:
		return 1 << 63, "sector=2^63"
	case 2, 3:
		return rapid.Uint64Range(1<<56, 1<<64-1).Draw(t, "sector"), "sector>=2^56"
	case 4:
		return uint64(1<<32) + uint64(rapid.IntRange(-2, 2).Draw(t, "d")), "sector~2^32"
	case 5:
		return rapid.Uint64Range(1<<32, 1<<56-1).Draw(t, "sector"), "sector=2^32..2^56"
	case 6:
		return 0, "sector=0"
	case 7:
		return 1, "sector=1"
	case 8:
		// one bit set: distinguishes byte order and truncation
		return 1 << rapid.IntRange(0, 63).Draw(t, "bit"), "sector=single-bit"
	default:
		return uint64(rapid.Uint32().Draw(t, "sector")), "sector<2^32"
	}
}

func c13Key(t *rapid.T) ([]byte, string) {
	half := rapid.SampledFrom([]int{16, 32}).Draw(t, "halfKeyLen")
	label := fmt.Sprintf("AES-%d", half*8)
	switch rapid.IntRange(0, 5).Draw(t, "keyClass") {
	case 0:
		k := gen.RandBytes(t, "k", half)
		return append(append([]byte{}, k...), k...), label + ",k1=k2"
	case 1:
		k, fc := gen.Bytes(t, "kp", 2*half)
		return k, label + "," + fc
	default:
		return gen.RandBytes(t, "key", 2*half), label + ",random"
	}
}

// c13Run drives Encrypt or Decrypt through the drawn buffer layout and returns
// the produced bytes.
func c13Run(c *xts.Cipher, decrypt bool, data []byte, sector uint64, inplace bool, extra int) ([]byte, error) {
	srcIn := newIn(data, extra/2) // input with spare capacity
	src := srcIn.s
	var dst []byte
	if inplace {
		dst = src
	} else {
		dst = filled(len(data) + extra)
	}
	name := "Encrypt"
	if decrypt {
		name = "Decrypt"
	}
	err := catch(func() {
		if decrypt {
			c.Decrypt(dst, src, sector)
		} else {
			c.Encrypt(dst, src, sector)
		}
	})
	if err != nil {
		return nil, fmt.Errorf("%s(len=%d, sector=%#x): %v", name, len(data), sector, err)
	}
	if !inplace {
		if !srcIn.intact() {
			return nil, fmt.Errorf("%s modified its input or the spare capacity behind it (len=%d)", name, len(data))
		}
		if !allA5(dst[len(data):]) {
			return nil, fmt.Errorf("%s wrote beyond len(input)=%d", name, len(data))
		}
	}
	return dst[:len(data)], nil
}

func c13Check(key, pt []byte, sector uint64, inplace bool, extra int) error {
	want, err := refnacl.XTS(key, pt, sector, false)
	if err != nil {
		return fmt.Errorf("harness: %v", err)
	}
	// Two Cipher objects are made from the SAME key slice (which has spare
	// capacity) before either is used; crypto/aes has consumed the key when
	// NewCipher returns, so the caller then reuses the buffer.  Encrypt runs on
	// the first object, Decrypt on the second.
	keyIn := newIn(key, len(pt)/16%9)
	c, err := xts.NewCipher(aes.NewCipher, keyIn.s)
	if err != nil {
		return fmt.Errorf("xts.NewCipher(%d-byte key): %v", len(key), err)
	}
	cDec, err := xts.NewCipher(aes.NewCipher, keyIn.s)
	if err != nil {
		return fmt.Errorf("xts.NewCipher(%d-byte key), second object: %v", len(key), err)
	}
	if !keyIn.intact() {
		return fmt.Errorf("xts.NewCipher modified the key slice or the spare capacity behind it")
	}
	keyIn.clobber(0x6b)
	ct, err := c13Run(c, false, pt, sector, inplace, extra)
	if err != nil {
		return err
	}
	if !bytes.Equal(ct, want) {
		i := firstDiff(ct, want)
		return fmt.Errorf("Encrypt(key=%x, sector=%#x, %d blocks, in-place:%v) differs from IEEE 1619 XTS-AES at byte %d (block %d): got %x want %x",
			key, sector, len(pt)/16, inplace, i, i/16, ct[i/16*16:i/16*16+16], want[i/16*16:i/16*16+16])
	}
	if !inplace {
		// one destination reused for consecutive sectors (it holds the previous
		// sector's ciphertext when the next call starts)
		dst := filled(len(pt))
		for i, sec := range []uint64{sector ^ 1, sector} {
			c.Encrypt(dst, pt, sec)
			w, _ := refnacl.XTS(key, pt, sec, false)
			if !bytes.Equal(dst, w) {
				return fmt.Errorf("Encrypt(key=%x, sector=%#x, %d blocks) into a reused destination (call %d) differs from IEEE 1619 in block %d", key, sec, len(pt)/16, i+1, firstDiff(dst, w)/16)
			}
		}
	}
	back, err := c13Run(cDec, true, ct, sector, inplace, extra)
	if err != nil {
		return err
	}
	if !bytes.Equal(back, pt) {
		i := firstDiff(back, pt)
		return fmt.Errorf("Decrypt(Encrypt(p)) != p (key=%x, sector=%#x, %d blocks, in-place:%v): first difference in block %d", key, sector, len(pt)/16, inplace, i/16)
	}
	// Decrypt on its own data (not an Encrypt output of this call)
	wantD, _ := refnacl.XTS(key, pt, sector, true)
	gotD, err := c13Run(cDec, true, pt, sector, !inplace, extra)
	if err != nil {
		return err
	}
	if !bytes.Equal(gotD, wantD) {
		i := firstDiff(gotD, wantD)
		return fmt.Errorf("Decrypt(key=%x, sector=%#x, %d blocks) differs from IEEE 1619 XTS-AES decryption in block %d", key, sector, len(pt)/16, i/16)
	}
	return nil
}

func TestC13(t *testing.T) {
	c := ev.New("C13", "non-trivial: data unit of >= 9 blocks (the tweak is doubled past a byte carry) or sector number >= 2^32; distinct = (AES key size and key class, sector class, block-count bucket, in-place)")
	defer c.Flush(t)
	c.Oracle("refnacl.XTS: IEEE 1619 XTS-AES with the tweak multiplied by alpha^j through polynomial division over math/big, block cipher crypto/aes (KAT: IEEE 1619 vectors 1-3)")
	if err := refnacl.SelfTestXTS(); err != nil {
		c.Inconclusive(err.Error())
		t.Fatal(err)
	}
	if clibnacl.Available {
		c.Oracle("libcrypto EVP_aes_128_xts / EVP_aes_256_xts (skipped when Key1 == Key2, which OpenSSL 3 refuses)")
	} else {
		c.Assumption("libcrypto differential skipped (built without -tags clib)")
	}

	rapid.Check(t, func(rt *rapid.T) {
		stc := setStale(rt)
		key, kc := c13Key(rt)
		sector, sc := c13Sector(rt)
		var nblocks int
		var bc string
		switch rapid.IntRange(0, 9).Draw(rt, "blocksClass") {
		case 0, 1, 2:
			nblocks, bc = rapid.IntRange(9, 40).Draw(rt, "blocks"), "blocks=9..40"
		case 3, 4:
			nblocks, bc = rapid.IntRange(41, 256).Draw(rt, "blocks"), "blocks=41..256"
		case 5:
			nblocks, bc = rapid.SampledFrom([]int{32, 128, 256}).Draw(rt, "blocks"), "blocks=512B/2KiB/4KiB"
		default:
			nblocks, bc = rapid.IntRange(1, 8).Draw(rt, "blocks"), "blocks=1..8"
		}
		pt, fc := gen.Bytes(rt, "pt", 16*nblocks)
		inplace := rapid.Bool().Draw(rt, "inplace")
		extra := rapid.IntRange(0, 2).Draw(rt, "extra") * 16
		if err := c13Check(key, pt, sector, inplace, extra); err != nil {
			rt.Fatalf("VF-VIOLATION: property=C13 %v", err)
		}
		if clibnacl.Available {
			want, _ := refnacl.XTS(key, pt, sector, false)
			if got, ok := clibnacl.XTSAES(key, pt, sector, false); ok {
				if !bytes.Equal(got, want) {
					harnessTrouble(c, rt, "libcrypto XTS and the reference disagree (key=%x sector=%#x blocks=%d)", key, sector, nblocks)
				}
				c.Class("libcrypto:compared")
			} else {
				if !bytes.Equal(key[:len(key)/2], key[len(key)/2:]) {
					harnessTrouble(c, rt, "libcrypto refused an XTS key with Key1 != Key2 (key=%x)", key)
				}
				c.Class("libcrypto:refused(k1=k2)")
			}
		}
		bucket := nblocks
		if bucket > 16 {
			bucket = 16 + nblocks/16
		}
		c.Case(nblocks >= 9 || sector >= 1<<32, fmt.Sprintf("%s|%s|%d|%v", kc, sc, bucket, inplace), kc, sc, bc, fc, stc, fmt.Sprintf("inplace=%v", inplace))
		if c.WantSample() {
			c.Sample(map[string]any{"key": ev.Hex(key), "sector": fmt.Sprintf("%#x", sector), "blocks": nblocks, "inplace": inplace, "plaintext": ev.Hex(pt)})
		}
	})

	staleSeed = 0x9e3779b97f4a7c15
	// Directed: boundary sectors x every block count 1..N with fixed keys.
	sectors := []uint64{0, 1, 0xff, 1<<32 - 1, 1 << 32, 1<<56 - 1, 1 << 56, 1 << 63, 1<<64 - 1, 0x0123456789abcdef}
	maxBlocks := ev.Scale(40, 300)
	idx, total := 0, 0
	for _, half := range []int{16, 32} {
		key := make([]byte, 2*half)
		for i := range key {
			key[i] = byte(i*37 + half)
		}
		for _, sector := range sectors {
			for nb := 1; nb <= maxBlocks; nb++ {
				idx++
				total++
				if !ev.Mine(idx) {
					continue
				}
				pt := make([]byte, 16*nb)
				for i := range pt {
					pt[i] = byte(i*11 + nb)
				}
				if err := c13Check(key, pt, sector, idx%2 == 0, 16); err != nil {
					c.Violation(err.Error(), "")
					t.Fatalf("VF-VIOLATION: property=C13 %v", err)
				}
				c.Case(nb >= 9 || sector >= 1<<32, fmt.Sprintf("table|%d|%x|%d", half, sector, nb), "table:sector-x-blocks")
			}
		}
	}
	c.Exhaustive(fmt.Sprintf("AES-128/256 x %d boundary sectors x every block count 1..%d", len(sectors), maxBlocks), total)

	// Contract panics: a length that is not a multiple of 16 and a destination
	// shorter than the source are rejected (package documentation: "Sectors must
	// be a multiple of 16 bytes").
	key := make([]byte, 32)
	ci, err := xts.NewCipher(aes.NewCipher, key)
	if err != nil {
		c.Inconclusive(err.Error())
		t.Fatal(err)
	}
	for _, n := range []int{1, 15, 17, 31, 33} {
		for _, dec := range []bool{false, true} {
			e := catch(func() {
				if dec {
					ci.Decrypt(make([]byte, 64), make([]byte, n), 0)
				} else {
					ci.Encrypt(make([]byte, 64), make([]byte, n), 0)
				}
			})
			if e == nil {
				what := fmt.Sprintf("xts accepted a %d-byte sector (decrypt=%v); documented: must be a multiple of 16", n, dec)
				c.Violation(what, "")
				t.Fatalf("VF-VIOLATION: property=C13 %s", what)
			}
			c.Case(false, "", "directed:non-multiple-of-16")
		}
	}
	for _, dec := range []bool{false, true} {
		e := catch(func() {
			if dec {
				ci.Decrypt(make([]byte, 16), make([]byte, 32), 0)
			} else {
				ci.Encrypt(make([]byte, 16), make([]byte, 32), 0)
			}
		})
		if e == nil {
			what := fmt.Sprintf("xts accepted a destination shorter than the source (decrypt=%v)", dec)
			c.Violation(what, "")
			t.Fatalf("VF-VIOLATION: property=C13 %s", what)
		}
		c.Case(false, "", "directed:short-destination")
	}

	c13Structured(c, t)

	c13Concurrent(c, t)
}
