//go:build linux && amd64

package nacl

import (
	"fmt"
	"os"
	"syscall"
	"unsafe"
)

// mirrorMap returns a slice of `total` bytes of address space that is made of
// consecutive MAP_SHARED mappings of one `window`-byte memory file, so that a
// multi-gigabyte slice costs only `window` bytes of RAM.  phys is a plain
// mapping of the same file (its real contents).  Any failure is returned as an
// error: the caller then skips the case.
func mirrorMap(total, window int) (big, phys []byte, cleanup func(), err error) {
	const sysMemfdCreate = 319
	name := []byte("vf-mirror\x00")
	fd, _, errno := syscall.Syscall(sysMemfdCreate, uintptr(unsafe.Pointer(&name[0])), 0, 0)
	var f *os.File
	if errno != 0 {
		// fall back to an unlinked temporary file
		dir := os.Getenv("VF_RUNDIR")
		tf, e := os.CreateTemp(dir, "vf-mirror-*")
		if e != nil {
			return nil, nil, nil, fmt.Errorf("memfd_create: %v; temp file: %v", errno, e)
		}
		os.Remove(tf.Name())
		f = tf
	} else {
		f = os.NewFile(fd, "vf-mirror")
	}
	fail := func(e error) ([]byte, []byte, func(), error) { f.Close(); return nil, nil, nil, e }
	if e := f.Truncate(int64(window)); e != nil {
		return fail(e)
	}
	phys, e := syscall.Mmap(int(f.Fd()), 0, window, syscall.PROT_READ|syscall.PROT_WRITE, syscall.MAP_SHARED)
	if e != nil {
		return fail(fmt.Errorf("mmap window: %v", e))
	}
	windows := (total + window - 1) / window
	res, e := syscall.Mmap(-1, 0, windows*window, syscall.PROT_NONE, syscall.MAP_PRIVATE|syscall.MAP_ANON|syscall.MAP_NORESERVE)
	if e != nil {
		syscall.Munmap(phys)
		return fail(fmt.Errorf("reserve %d bytes of address space: %v", windows*window, e))
	}
	base := uintptr(unsafe.Pointer(&res[0]))
	cleanup = func() {
		syscall.Munmap(res)
		syscall.Munmap(phys)
		f.Close()
	}
	for w := 0; w < windows; w++ {
		addr, _, errno := syscall.Syscall6(syscall.SYS_MMAP, base+uintptr(w*window), uintptr(window),
			syscall.PROT_READ|syscall.PROT_WRITE, syscall.MAP_SHARED|syscall.MAP_FIXED, f.Fd(), 0)
		if errno != 0 || addr != base+uintptr(w*window) {
			cleanup()
			return nil, nil, nil, fmt.Errorf("mmap mirror %d of %d: %v", w, windows, errno)
		}
	}
	return res[:total], phys, cleanup, nil
}
