package nacl

import (
	"bytes"
	"encoding/binary"
	"fmt"
	"testing"

	"golang.org/x/crypto/salsa20"
	"golang.org/x/crypto/salsa20/salsa"
	"pgregory.net/rapid"

	"verif/harness/internal/clibnacl"
	"verif/harness/internal/ev"
	"verif/harness/internal/gen"
	"verif/harness/internal/refnacl"
)

// c09Span classifies where the 64-bit block counters used by a message of
// nblocks blocks starting at ctr lie relative to the 2^32 (low-to-high word
// carry) and 2^64 (wrap) boundaries.
func c09Span(ctr uint64, nblocks int) (label string, near bool) {
	if nblocks == 0 {
		return "span=empty", false
	}
	last := ctr + uint64(nblocks-1) // wraps like the cipher does
	switch {
	case last < ctr:
		return "span=wraps-2^64", true
	case last>>32 != ctr>>32:
		return "span=carries-into-high-word", true
	}
	// within 4 blocks of a boundary without crossing it
	lo := uint32(ctr)
	lastLo := uint32(last)
	if lastLo >= 1<<32-4 {
		if ctr>>32 == 1<<32-1 {
			return "span=near-2^64", true
		}
		return "span=near-2^32", true
	}
	if lo <= 3 && ctr>>32 != 0 {
		return "span=just-after-2^32-multiple", true
	}
	return "span=far", false
}

func c09Counter(t *rapid.T) (uint64, string) {
	switch rapid.IntRange(0, 11).Draw(t, "ctrClass") {
	case 0, 1:
		k := rapid.IntRange(-1, 36).Draw(t, "k")
		return uint64(1<<32) - uint64(int64(k)), "ctr=2^32-k"
	case 2, 3:
		k := rapid.IntRange(1, 36).Draw(t, "k")
		return -uint64(k), "ctr=2^64-k"
	case 4, 5:
		hi := rapid.Uint32().Draw(t, "hi")
		k := rapid.IntRange(-1, 36).Draw(t, "k")
		return uint64(hi)<<32 - uint64(int64(k)), "ctr=hi*2^32-k"
	case 6:
		return 0, "ctr=0"
	case 7:
		return uint64(rapid.IntRange(1, 40).Draw(t, "ctr")), "ctr=small"
	default:
		return rapid.Uint64().Draw(t, "ctr"), "ctr=random"
	}
}

// c09Raw checks salsa.XORKeyStream (the build's default implementation) and the
// exported portable implementation on one (key, counter block, input, buffer
// layout) against the specification.
func c09Raw(key [32]byte, counter [16]byte, in []byte, alias bool, extra int) error {
	want := refnacl.Salsa20XORCounter(in, counter, key)
	impls := []struct {
		name string
		f    func(out, in []byte, counter *[16]byte, key *[32]byte)
	}{
		{"salsa.XORKeyStream[" + variant() + "]", salsa.XORKeyStream},
		{"salsa.genericXORKeyStream", salsa.VerifGenericXORKeyStream},
	}
	for _, im := range impls {
		srcIn := newIn(in, 7*extra) // the input slice may have spare capacity
		src := srcIn.s
		var out []byte
		if alias {
			out = src
		} else {
			out = filled(len(in) + extra)
		}
		k, c := key, counter
		if err := catch(func() { im.f(out, src, &c, &k) }); err != nil {
			return fmt.Errorf("%s(len=%d, counter=%x): %v", im.name, len(in), counter, err)
		}
		if !bytes.Equal(out[:len(in)], want) {
			i := firstDiff(out, want)
			return fmt.Errorf("%s(key=%x, counter=%x, len=%d, in==out:%v): output differs from the Salsa20 specification at byte %d (block %d): got %x.. want %x..",
				im.name, key, counter, len(in), alias, i, i/64, out[i:min(i+8, len(in))], want[i:min(i+8, len(in))])
		}
		if !alias {
			if !allA5(out[len(in):]) {
				return fmt.Errorf("%s wrote beyond len(in)=%d", im.name, len(in))
			}
			if !srcIn.intact() {
				return fmt.Errorf("%s modified its input or wrote into the spare capacity behind it", im.name)
			}
		} else if !allA5(src[len(in):cap(src)]) {
			return fmt.Errorf("%s (in == out) wrote beyond len(in)=%d", im.name, len(in))
		}
		if k != key {
			return fmt.Errorf("%s modified the key", im.name)
		}
		// consecutive call on the same buffers: XORing the output in place with
		// the same stream gives the input back
		if err := catch(func() { im.f(out[:len(in)], out[:len(in)], &c, &k) }); err != nil {
			return fmt.Errorf("%s second (in-place) call: %v", im.name, err)
		}
		if !bytes.Equal(out[:len(in)], in) {
			return fmt.Errorf("%s(key=%x, counter=%x, len=%d): applying the stream twice on the same buffer does not restore the input (first difference at byte %d)", im.name, key, counter, len(in), firstDiff(out, in))
		}
	}
	return nil
}

func c09Nonce(key [32]byte, nonce []byte, in []byte, alias bool, extra int) error {
	var want []byte
	if len(nonce) == 8 {
		var n [8]byte
		copy(n[:], nonce)
		want = refnacl.Salsa20XOR(in, n, key)
	} else {
		var n [24]byte
		copy(n[:], nonce)
		want = refnacl.XSalsa20XOR(in, n, key)
	}
	srcIn, nonceIn := newIn(in, 7*extra), newIn(nonce, 5*extra)
	src := srcIn.s
	var out []byte
	if alias {
		out = src
	} else {
		out = filled(len(in) + extra)
	}
	k := key
	nn := nonceIn.s
	if err := catch(func() { salsa20.XORKeyStream(out, src, nn, &k) }); err != nil {
		return fmt.Errorf("salsa20.XORKeyStream(len=%d, nonce=%x): %v", len(in), nonce, err)
	}
	if !bytes.Equal(out[:len(in)], want) {
		i := firstDiff(out, want)
		return fmt.Errorf("salsa20.XORKeyStream(key=%x, nonce=%x, len=%d, in==out:%v): output differs from the specification at byte %d", key, nonce, len(in), alias, i)
	}
	if !alias && (!allA5(out[len(in):]) || !srcIn.intact()) {
		return fmt.Errorf("salsa20.XORKeyStream wrote beyond len(in) or modified its input (len=%d)", len(in))
	}
	if alias && !allA5(src[len(in):cap(src)]) {
		return fmt.Errorf("salsa20.XORKeyStream (in == out) wrote beyond len(in)=%d", len(in))
	}
	if k != key || !nonceIn.intact() {
		return fmt.Errorf("salsa20.XORKeyStream modified key or nonce")
	}
	return nil
}

func c09Block(c [16]byte, k [32]byte, in [16]byte) (b [64]byte) {
	copy(b[0:4], c[0:4])
	copy(b[4:20], k[0:16])
	copy(b[20:24], c[4:8])
	copy(b[24:40], in[:])
	copy(b[40:44], c[8:12])
	copy(b[44:60], k[16:32])
	copy(b[60:64], c[12:16])
	return
}

func TestC09(t *testing.T) {
	c := ev.New("C09", "non-trivial: (>= 2 blocks and the block counters used come within 4 of, carry across, or wrap at a 2^32 / 2^64 boundary) or a 24-byte XSalsa20 nonce; distinct = (entry point, counter class, span class, length class mod 64/256, aliasing)")
	defer c.Flush(t)
	c.Oracle("refnacl Salsa20/XSalsa20/HSalsa20/Salsa20-8 (transcribed from the Salsa20 spec, the XSalsa20 paper, RFC 7914; KAT-checked)")
	c.Variant(variant())
	c.Variant("generic-via-hook")
	if err := refnacl.SelfTestSalsa(); err != nil {
		c.Inconclusive(err.Error())
		t.Fatal(err)
	}
	if clibnacl.Available {
		c.Oracle(clibnacl.Name() + " crypto_stream_salsa20_xor_ic / xsalsa20_xor_ic / core_hsalsa20 / core_salsa208")
	} else {
		c.Assumption("libsodium differential skipped (built without -tags clib); the spec transcription alone decides")
	}

	rapid.Check(t, func(rt *rapid.T) {
		stc := setStale(rt)
		key, kc := draw32(rt, "key")
		n, lc := lenMix(rt, "len", 2000, 25, 64, 256)
		in, fc := gen.Bytes(rt, "in", n)
		alias := rapid.Bool().Draw(rt, "alias")
		extra := rapid.IntRange(0, 3).Draw(rt, "extra")
		mode := rapid.SampledFrom([]string{"raw", "raw", "raw", "nonce8", "nonce24", "nonce24"}).Draw(rt, "mode")
		nblocks := (n + 63) / 64
		var nontrivial bool
		var keyStr string
		sample := map[string]any{"mode": mode, "len": n, "alias": alias, "key": ev.Hex(key[:])}
		switch mode {
		case "raw":
			ctr, cc := c09Counter(rt)
			nonce := gen.RandBytes(rt, "nonce", 8)
			var counter [16]byte
			copy(counter[:8], nonce)
			binary.LittleEndian.PutUint64(counter[8:], ctr)
			if err := c09Raw(key, counter, in, alias, extra); err != nil {
				rt.Fatalf("VF-VIOLATION: property=C09 %v", err)
			}
			if clibnacl.Available {
				var n8 [8]byte
				copy(n8[:], nonce)
				if got, want := clibnacl.StreamSalsa20XORIC(in, n8, ctr, key), refnacl.Salsa20XORCounter(in, counter, key); !bytes.Equal(got, want) {
					harnessTrouble(c, rt, "libsodium salsa20_xor_ic and the reference disagree (counter=%x len=%d)", counter, n)
				}
			}
			span, near := c09Span(ctr, nblocks)
			nontrivial = nblocks >= 2 && near
			keyStr = fmt.Sprintf("raw|%s|%s|%s|%d|%v", cc, span, gen.LenClass(n, 64), min(n/256, 4), alias)
			c.Case(nontrivial, keyStr, "mode=raw", cc, span, lc, fc, kc, stc, fmt.Sprintf("alias=%v", alias))
			sample["counter_block"] = ev.Hex(counter[:])
			sample["span"] = span
		case "nonce8", "nonce24":
			nl := 8
			if mode == "nonce24" {
				nl = 24
			}
			nonce, _ := gen.Bytes(rt, "nonce", nl)
			if err := c09Nonce(key, nonce, in, alias, extra); err != nil {
				rt.Fatalf("VF-VIOLATION: property=C09 %v", err)
			}
			if clibnacl.Available {
				var got, want []byte
				if nl == 8 {
					var n8 [8]byte
					copy(n8[:], nonce)
					got, want = clibnacl.StreamSalsa20XORIC(in, n8, 0, key), refnacl.Salsa20XOR(in, n8, key)
				} else {
					var n24 [24]byte
					copy(n24[:], nonce)
					got, want = clibnacl.StreamXSalsa20XORIC(in, n24, 0, key), refnacl.XSalsa20XOR(in, n24, key)
				}
				if !bytes.Equal(got, want) {
					harnessTrouble(c, rt, "libsodium %s stream and the reference disagree (nonce=%x len=%d)", mode, nonce, n)
				}
			}
			nontrivial = nl == 24 && n > 0
			keyStr = fmt.Sprintf("%s|%s|%d|%v", mode, gen.LenClass(n, 64), min(n/256, 4), alias)
			c.Case(nontrivial, keyStr, "mode="+mode, lc, fc, kc, stc, fmt.Sprintf("alias=%v", alias))
			sample["nonce"] = ev.Hex(nonce)
		}
		if c.WantSample() {
			c.Sample(sample)
		}

		// HSalsa20 and Core208 on drawn inputs (any constant, not only sigma)
		if rapid.IntRange(0, 3).Draw(rt, "core") == 0 {
			in16 := draw16(rt, "hin")
			cst := refnacl.Sigma
			cl := "hsalsa20:sigma"
			if rapid.Bool().Draw(rt, "otherConst") {
				cst = draw16(rt, "hconst")
				cl = "hsalsa20:other-constant"
			}
			got := stale32() // the destination holds junk beforehand
			k, i, cc := key, in16, cst
			salsa.HSalsa20(&got, &i, &k, &cc)
			want := refnacl.HSalsa20(in16, key, cst)
			if got != want {
				rt.Fatalf("VF-VIOLATION: property=C09 HSalsa20(in=%x, k=%x, c=%x) = %x, definition gives %x", in16, key, cst, got, want)
			}
			if k != key || i != in16 || cc != cst {
				rt.Fatalf("VF-VIOLATION: property=C09 HSalsa20 modified an input")
			}
			if clibnacl.Available && clibnacl.CoreHSalsa20(in16, key, cst) != want {
				harnessTrouble(c, rt, "libsodium core_hsalsa20 and the reference disagree")
			}
			c.Case(false, "", cl)

			blk := c09Block(cst, key, in16)
			if rapid.Bool().Draw(rt, "rawBlock") {
				copy(blk[:], gen.RandBytes(rt, "blk", 64))
			}
			out := stale64()
			b2 := blk
			salsa.Core208(&out, &b2)
			w208 := refnacl.Salsa208(blk)
			if out != w208 {
				rt.Fatalf("VF-VIOLATION: property=C09 Core208(%x) = %x, Salsa20/8 definition gives %x", blk, out, w208)
			}
			if b2 != blk {
				rt.Fatalf("VF-VIOLATION: property=C09 Core208 modified its input")
			}
			if clibnacl.Available && blk == c09Block(cst, key, in16) && clibnacl.CoreSalsa208(in16, key, cst) != w208 {
				harnessTrouble(c, rt, "libsodium core_salsa208 and the reference disagree")
			}
			c.Case(false, "", "core208")
		}
	})

	staleSeed = 0x9e3779b97f4a7c15
	// Directed: every counter next to the 2^32 and 2^64 boundaries x lengths
	// around the 64-byte block and the 256-byte (4-block assembly loop) sizes.
	var ctrs []uint64
	for k := -1; k <= 9; k++ {
		ctrs = append(ctrs, uint64(1<<32)-uint64(int64(k)))
		ctrs = append(ctrs, uint64(0xfffffffe)<<32-uint64(int64(k)))
	}
	for k := 1; k <= 9; k++ {
		ctrs = append(ctrs, -uint64(k))
	}
	ctrs = append(ctrs, 0)
	var lens []int
	if ev.Thorough() {
		for l := 0; l <= 1100; l++ {
			lens = append(lens, l)
		}
	} else {
		lens = []int{0, 1, 63, 64, 65, 127, 128, 129, 191, 192, 193, 255, 256, 257, 300, 319, 320, 321, 447, 448, 511, 512, 513, 575, 576, 577, 640, 767, 768, 1024, 1025}
	}
	var key [32]byte
	for i := range key {
		key[i] = byte(0x1f*i + 3)
	}
	idx, ran := 0, 0
	for _, ctr := range ctrs {
		for _, l := range lens {
			idx++
			if !ev.Mine(idx) {
				continue
			}
			in := make([]byte, l)
			for i := range in {
				in[i] = byte(i*13 + l)
			}
			var counter [16]byte
			copy(counter[:8], "noncenon")
			binary.LittleEndian.PutUint64(counter[8:], ctr)
			alias := idx%2 == 0
			if err := c09Raw(key, counter, in, alias, 2); err != nil {
				c.Violation(err.Error(), "")
				t.Fatalf("VF-VIOLATION: property=C09 %v", err)
			}
			span, near := c09Span(ctr, (l+63)/64)
			c.Case(l > 64 && near, fmt.Sprintf("table|%x|%d|%v", ctr, l, alias), "table:boundary-counter", span)
			ran++
		}
	}
	c.Exhaustive(fmt.Sprintf("block counters within 9 of 2^32, 0xfffffffe*2^32, 2^64 (%d values) x %d lengths", len(ctrs), len(lens)), len(ctrs)*len(lens))

	// Contract panics of salsa20.XORKeyStream: nonce sizes other than 8/24 and an
	// output shorter than the input.
	for _, nl := range []int{0, 1, 7, 9, 12, 16, 23, 25, 32} {
		err := catch(func() { salsa20.XORKeyStream(make([]byte, 8), make([]byte, 8), make([]byte, nl), &key) })
		if err == nil {
			what := fmt.Sprintf("salsa20.XORKeyStream accepted a %d-byte nonce (documented: must be 8 or 24 bytes)", nl)
			c.Violation(what, "")
			t.Fatalf("VF-VIOLATION: property=C09 %s", what)
		}
		c.Case(false, "", "directed:bad-nonce-size")
	}
	for _, nl := range []int{8, 24} {
		out := filled(40)
		err := catch(func() { salsa20.XORKeyStream(out[:16], make([]byte, 17), make([]byte, nl), &key) })
		if err == nil || !allA5(out[16:]) {
			what := fmt.Sprintf("salsa20.XORKeyStream with len(out) < len(in): err=%v, wrote past out: %v", err, !allA5(out[16:]))
			c.Violation(what, "")
			t.Fatalf("VF-VIOLATION: property=C09 %s", what)
		}
		c.Case(false, "", "directed:short-out")
	}
	_ = ran

	c09LongLengths(c, t)

	c09Huge(c, t)

	c09Concurrent(c, t)
}
