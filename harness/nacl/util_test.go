package nacl

import (
	"crypto/sha256"
	"encoding/binary"
	"encoding/hex"
	"fmt"
	"os"
	"runtime"
	"sync"

	"pgregory.net/rapid"

	"verif/harness/internal/ev"
	"verif/harness/internal/gen"
)

func unhex(s string) []byte {
	b, err := hex.DecodeString(s)
	if err != nil {
		panic(err)
	}
	return b
}

// drbg is a deterministic byte stream (SHA-256 in counter mode over a seed);
// it stands in for rand io.Reader parameters so that every random value the
// code under test draws is known to the harness.
type drbg struct {
	seed []byte
	ctr  uint64
	buf  []byte
}

func newDRBG(seed []byte) *drbg { return &drbg{seed: append([]byte{}, seed...)} }

func (d *drbg) Read(p []byte) (int, error) {
	for i := range p {
		if len(d.buf) == 0 {
			var c [8]byte
			binary.LittleEndian.PutUint64(c[:], d.ctr)
			d.ctr++
			s := sha256.Sum256(append(append([]byte{}, d.seed...), c[:]...))
			d.buf = s[:]
		}
		p[i] = d.buf[0]
		d.buf = d.buf[1:]
	}
	return len(p), nil
}

// fixedReader hands out exactly the given bytes, then fails.
type fixedReader struct{ b []byte }

func (f *fixedReader) Read(p []byte) (int, error) {
	if len(f.b) == 0 {
		return 0, fmt.Errorf("fixedReader exhausted")
	}
	n := copy(p, f.b)
	f.b = f.b[n:]
	return n, nil
}

func draw32(t *rapid.T, label string) (a [32]byte, class string) {
	b, class := gen.Bytes(t, label, 32)
	copy(a[:], b)
	return
}

func draw24(t *rapid.T, label string) (a [24]byte) {
	b, _ := gen.Bytes(t, label, 24)
	copy(a[:], b)
	return
}

func draw16(t *rapid.T, label string) (a [16]byte) {
	b, _ := gen.Bytes(t, label, 16)
	copy(a[:], b)
	return
}

// variant names the implementation the default entry points reach in this
// build (the driver runs a second, purego build with VF_PUREGO=1).
func variant() string {
	if os.Getenv("VF_PUREGO") == "1" {
		return "purego"
	}
	if runtime.GOARCH == "amd64" {
		return "amd64-asm"
	}
	return "generic-" + runtime.GOARCH
}

// catch runs f and turns a panic into an error.
func catch(f func()) (err error) {
	defer func() {
		if r := recover(); r != nil {
			err = fmt.Errorf("panic: %v", r)
		}
	}()
	f()
	return nil
}

// harnessTrouble records an oracle-vs-oracle disagreement (never a violation)
// once and aborts the case.
var troubleOnce sync.Once

func harnessTrouble(c *ev.Collector, rt *rapid.T, format string, args ...any) {
	msg := fmt.Sprintf(format, args...)
	troubleOnce.Do(func() { c.Inconclusive(msg) })
	rt.Fatalf("VF-INCONCLUSIVE: %s", msg)
}

// Stale destination contents.  Every output buffer handed to the code under
// test is pre-filled with non-zero junk, so that a result which depends on what
// the destination held before (a skipped zeroing, an XOR into the destination,
// a partially written output) shows up as a wrong result.  The junk is a
// function of staleSeed and of the distance to the end of the backing array, so
// that "was the tail left untouched" can be checked on any tail sub-slice.
// staleSeed is drawn per case (setStale); 0 selects the constant 0xa5.
var staleSeed uint64

func setStale(t *rapid.T) string {
	if rapid.IntRange(0, 3).Draw(t, "staleKind") == 3 {
		staleSeed = 0
		return "stale=a5"
	}
	staleSeed = rapid.Uint64Range(1, 1<<64-1).Draw(t, "staleSeed")
	return "stale=drawn"
}

func junk(r int) byte {
	if staleSeed == 0 {
		return 0xa5
	}
	v := byte(staleSeed>>(8*uint(r&7))) ^ byte(r*157) ^ byte(r>>8)
	if v == 0 {
		v = 0x5a
	}
	return v
}

// filled returns an n-byte buffer (capacity exactly n) holding stale junk.
func filled(n int) []byte {
	b := make([]byte, n)
	for i := range b {
		b[i] = junk(n - i)
	}
	return b
}

// allA5 reports whether b, a tail sub-slice of a filled() buffer (capacity
// reaching the end of that buffer), still holds the junk it was created with.
func allA5(b []byte) bool {
	for i, x := range b {
		if x != junk(cap(b)-i) {
			return false
		}
	}
	return true
}

func stale32() (a [32]byte) { copy(a[:], filled(32)); return }
func stale64() (a [64]byte) { copy(a[:], filled(64)); return }

// firstDiff returns the first index where a and b differ (or the shorter
// length), for readable messages.
func firstDiff(a, b []byte) int {
	n := min(len(a), len(b))
	for i := 0; i < n; i++ {
		if a[i] != b[i] {
			return i
		}
	}
	return n
}

// lenMix draws a length in [0,max]: about half next to a multiple of one of
// the bounds (k*b + d, d in -2..2), then uniform over the whole range, and
// smallPct % uniform in 0..96.  (rapid's integer draws lean towards small
// values, so the class that should be most frequent is listed first; gen.Len
// leans towards short inputs and the multi-block paths of this group need more
// long ones.)
func lenMix(t *rapid.T, label string, max, smallPct int, bounds ...int) (int, string) {
	mode := rapid.IntRange(0, 99).Draw(t, label+".mode")
	rest := 100 - smallPct
	switch {
	case mode < rest*3/5:
		b := rapid.SampledFrom(bounds).Draw(t, label+".b")
		k := rapid.IntRange(0, max/b).Draw(t, label+".k")
		d := rapid.IntRange(-2, 2).Draw(t, label+".d")
		n := b*k + d
		if n < 0 {
			n = 0
		}
		if n > max {
			n = max
		}
		return n, "len=boundary"
	case mode < rest:
		return rapid.IntRange(0, max).Draw(t, label), "len=uniform"
	default:
		return rapid.IntRange(0, min(96, max)).Draw(t, label), "len=small"
	}
}

// clone copies b, keeping nil nil and empty empty.
func clone(b []byte) []byte {
	if b == nil {
		return nil
	}
	return append([]byte{}, b...)
}

// inbuf is an INPUT slice handed to the code under test.  In a good fraction of
// cases it is a prefix of a larger backing array: the spare capacity behind it
// holds sentinel bytes which the callee must never touch (an append(input, x)
// inside the callee would write there), and which the caller is free to
// overwrite afterwards (scribble simulates the caller appending to its own
// slice) without affecting anything derived from the input.
type inbuf struct {
	s    []byte // the slice passed to the code under test (nil stays nil)
	orig []byte // contents at creation
	tail []byte // what the spare capacity must still hold
}

func newIn(b []byte, extra int) *inbuf {
	if b == nil {
		return &inbuf{}
	}
	buf := filled(len(b) + extra)
	copy(buf, b)
	x := &inbuf{s: buf[:len(b)], orig: append([]byte{}, b...)}
	x.tail = append([]byte{}, buf[len(b):]...)
	return x
}

// drawIn wraps b with a drawn amount of spare capacity (none in about a third
// of the cases).
func drawIn(t *rapid.T, label string, b []byte) *inbuf {
	extra := 0
	if rapid.IntRange(0, 2).Draw(t, label+".spare") != 2 {
		extra = rapid.IntRange(1, 24).Draw(t, label+".extra")
	}
	return newIn(b, extra)
}

// intact reports whether neither the contents nor the spare capacity changed.
func (x *inbuf) intact() bool {
	if x.s == nil {
		return true
	}
	full := x.s[:cap(x.s)]
	return string(x.s) == string(x.orig) && string(full[len(x.s):]) == string(x.tail)
}

// scribble overwrites the spare capacity, as a caller appending to its own
// slice would.
func (x *inbuf) scribble(k byte) {
	if x.s == nil {
		return
	}
	full := x.s[:cap(x.s)]
	for i := len(x.s); i < len(full); i++ {
		full[i] = k + byte(i)
		x.tail[i-len(x.s)] = full[i]
	}
}

// clobber overwrites the contents too (only for inputs the API has consumed).
func (x *inbuf) clobber(k byte) {
	x.scribble(k)
	for i := range x.s {
		x.s[i] ^= k | 1
	}
	x.orig = append(x.orig[:0], x.s...)
}

func allIntact(what string, ins ...*inbuf) error {
	for i, x := range ins {
		if !x.intact() {
			return fmt.Errorf("%s: input slice #%d (len %d, cap %d) was modified, or bytes in its spare capacity were written", what, i, len(x.s), cap(x.s))
		}
	}
	return nil
}
