package nacl

import (
	"bytes"
	"crypto/ed25519"
	"fmt"
	"testing"

	"golang.org/x/crypto/nacl/box"
	"golang.org/x/crypto/nacl/secretbox"
	"golang.org/x/crypto/nacl/sign"
	"pgregory.net/rapid"

	"verif/harness/internal/clibnacl"
	"verif/harness/internal/ev"
	"verif/harness/internal/gen"
)

// Key-material classes for sign.  crypto_sign (and crypto/ed25519.Sign, which
// x/crypto wraps) use the 64-byte secret key AS GIVEN: the seed half derives
// the scalar and the nonce prefix, the STORED public half sk[32:] is hashed as
// A in H(R || A || M).  For a consistent pair the two halves agree; for
// seed||zeros, seed||another pair's public key, seed||low-order point etc. the
// signature depends on the stored bytes, and sign.Sign must still equal
// crypto_sign byte for byte.

// Ed25519 encodings of low-order points and non-canonical encodings (y >= p,
// or the sign bit on x = 0).
var c10EdSpecial = []string{
	"0100000000000000000000000000000000000000000000000000000000000000", // identity
	"ecffffffffffffffffffffffffffffffffffffffffffffffffffffffffffff7f", // (0, -1), order 2
	"0000000000000000000000000000000000000000000000000000000000000000", // order 4
	"0000000000000000000000000000000000000000000000000000000000000080", // order 4
	"26e8958fc2b227b045c3f489f2ef98f0d5dfac05d3c63339b13802886d53fc05", // order 8
	"c7176a703d4dd84fba3c0b760d10670f2a2053fa2c39ccc64ec7fd7792ac037a", // order 8
	"eeffffffffffffffffffffffffffffffffffffffffffffffffffffffffffff7f", // y = p+1: non-canonical identity
	"edffffffffffffffffffffffffffffffffffffffffffffffffffffffffffff7f", // y = p: non-canonical order 4
	"0100000000000000000000000000000000000000000000000000000000000080", // identity with the sign bit set (x = -0)
	"ffffffffffffffffffffffffffffffffffffffffffffffffffffffffffffffff", // y = 2^255-1 >= p, sign bit set
}

var c10SignKeyClasses = []string{"key=seed+other-public-key", "key=seed+zeros", "key=seed+special-point-encoding", "key=seed+random-32-bytes", "key=seed+own-public-key-bit-flipped"}

// c10SignKeyMaterial checks sign.Sign / sign.Open for one (seed, stored public
// half) combination against crypto/ed25519 and libsodium.
func c10SignKeyMaterial(seed, half, msg []byte) (sodiumOpenDiffers bool, err error) {
	var priv [64]byte
	copy(priv[:], seed)
	copy(priv[32:], half)
	var sig []byte
	if perr := catch(func() { sig = ed25519.Sign(ed25519.PrivateKey(priv[:]), msg) }); perr != nil {
		return false, fmt.Errorf("harness: crypto/ed25519.Sign with stored public half %x: %v", half, perr)
	}
	want := append(append([]byte{}, sig...), msg...)
	if clibnacl.Available {
		if got := clibnacl.Sign(msg, priv); !bytes.Equal(got, want) {
			return false, fmt.Errorf("harness: libsodium crypto_sign and crypto/ed25519.Sign disagree for secret key %x", priv)
		}
	}
	pr := priv
	var got []byte
	if perr := catch(func() { got = sign.Sign(nil, msg, &pr) }); perr != nil {
		return false, fmt.Errorf("sign.Sign(len=%d, secret key = seed %x || stored public half %x): %v", len(msg), seed, half, perr)
	}
	if !bytes.Equal(got, want) {
		return false, fmt.Errorf("sign.Sign(len=%d, secret key = seed %x || stored public half %x) = %x.., crypto_sign with the same 64-byte key gives %x.. (signatures differ at byte %d; crypto_sign hashes the stored public half)", len(msg), seed, half, got[:min(16, len(got))], want[:16], firstDiff(got, want))
	}
	if pr != priv {
		return false, fmt.Errorf("sign.Sign modified the private key")
	}
	// Open with the stored half and with the seed's real public key: the decision
	// is the one of crypto/ed25519.Verify on the same bytes (libsodium is compared
	// and a disagreement between the two libraries is only counted: they differ on
	// some small-order / non-canonical public keys by design).
	real := ed25519.NewKeyFromSeed(seed)[32:]
	for _, pkb := range [][]byte{half, real} {
		var pk [32]byte
		copy(pk[:], pkb)
		wantOK := ed25519.Verify(ed25519.PublicKey(pk[:]), msg, sig)
		m, ok := sign.Open(nil, want, &pk)
		if ok != wantOK || (ok && !bytes.Equal(m, msg)) {
			return false, fmt.Errorf("sign.Open(signed with seed %x || %x, public key %x) = %v, crypto/ed25519.Verify on the same bytes says %v", seed, half, pk, ok, wantOK)
		}
		if clibnacl.Available {
			if _, sok := clibnacl.SignOpen(want, pk); sok != wantOK {
				sodiumOpenDiffers = true
			}
		}
	}
	return sodiumOpenDiffers, nil
}

func c10DrawSignHalf(rt *rapid.T, seed []byte) ([]byte, string) {
	cl := rapid.SampledFrom(c10SignKeyClasses).Draw(rt, "signKeyClass")
	switch cl {
	case "key=seed+other-public-key":
		return ed25519.NewKeyFromSeed(gen.RandBytes(rt, "otherSeed", 32))[32:], cl
	case "key=seed+zeros":
		return make([]byte, 32), cl
	case "key=seed+special-point-encoding":
		return unhex(rapid.SampledFrom(c10EdSpecial).Draw(rt, "special")), cl
	case "key=seed+random-32-bytes":
		return gen.RandBytes(rt, "half", 32), cl
	default:
		h := append([]byte{}, ed25519.NewKeyFromSeed(seed)[32:]...)
		h[rapid.IntRange(0, 31).Draw(rt, "flipByte")] ^= 1 << rapid.IntRange(0, 7).Draw(rt, "flipBit")
		return h, cl
	}
}

// c10SignKeyTable enumerates every class (each special encoding) x a few
// message lengths with fixed seeds.
func c10SignKeyTable(c *ev.Collector, t *testing.T) {
	seed := bytes.Repeat([]byte{0x42}, 32)
	for i := range seed {
		seed[i] += byte(3 * i)
	}
	own := ed25519.NewKeyFromSeed(seed)[32:]
	flipped := append([]byte{}, own...)
	flipped[31] ^= 0x80
	halves := map[string][][]byte{
		"key=consistent":                      {own},
		"key=seed+other-public-key":           {ed25519.NewKeyFromSeed(bytes.Repeat([]byte{9}, 32))[32:]},
		"key=seed+zeros":                      {make([]byte, 32)},
		"key=seed+own-public-key-bit-flipped": {flipped},
	}
	for _, s := range c10EdSpecial {
		halves["key=seed+special-point-encoding"] = append(halves["key=seed+special-point-encoding"], unhex(s))
	}
	n := 0
	for _, cl := range append([]string{"key=consistent"}, c10SignKeyClasses...) {
		for hi, half := range halves[cl] {
			for _, l := range []int{0, 1, 32, 33, 64, 200} {
				n++
				if !ev.Mine(n) {
					continue
				}
				differs, err := c10SignKeyMaterial(seed, half, patternMsg(l, hi))
				if err != nil {
					if bytes.HasPrefix([]byte(err.Error()), []byte("harness:")) {
						c.Inconclusive(err.Error())
						t.Fatalf("VF-INCONCLUSIVE: %v", err)
					}
					c.Violation(err.Error(), "")
					t.Fatalf("VF-VIOLATION: property=C10 %v", err)
				}
				c.Case(true, fmt.Sprintf("table|sign|%s|%d|%d", cl, hi, l), "table:sign "+cl)
				if differs {
					c.Class("sign.Open: libsodium and crypto/ed25519 differ on this public key (counted, not asserted)")
				}
			}
		}
	}
	c.Exhaustive("sign key material classes (consistent, seed||other pk, seed||zeros, seed||bit-flipped pk, seed||each of 10 special point encodings) x 6 message lengths", n)
}

// c10Equivalences: documented-equivalent entry points give identical bytes.
func c10Equivalences(rt *rapid.T, msg []byte) error {
	key, _ := draw32(rt, "eqKey")
	nonce := draw24(rt, "eqNonce")
	a := secretbox.Seal(nil, msg, &nonce, &key)
	b := box.SealAfterPrecomputation(nil, msg, &nonce, &key)
	if !bytes.Equal(a, b) {
		return fmt.Errorf("secretbox.Seal and box.SealAfterPrecomputation with the same key differ (len=%d, byte %d)", len(msg), firstDiff(a, b))
	}
	m1, ok1 := secretbox.Open(nil, a, &nonce, &key)
	m2, ok2 := box.OpenAfterPrecomputation(nil, a, &nonce, &key)
	if !ok1 || !ok2 || !bytes.Equal(m1, msg) || !bytes.Equal(m2, msg) {
		return fmt.Errorf("secretbox.Open / box.OpenAfterPrecomputation disagree on the same box (len=%d): ok %v/%v", len(msg), ok1, ok2)
	}
	return nil
}
