package nacl

import (
	"bytes"
	"crypto/sha1"
	"crypto/sha256"
	"crypto/sha512"
	"encoding/hex"
	"fmt"
	"hash"
	"io"
	"os"
	"os/exec"
	"strings"
	"testing"

	"golang.org/x/crypto/hkdf"
	"golang.org/x/crypto/pbkdf2"
	"pgregory.net/rapid"

	"verif/harness/internal/ev"
	"verif/harness/internal/gen"
	"verif/harness/internal/refnacl"
)

type c18Hash struct {
	name string
	newH func() hash.Hash
	size int
}

var c18Hashes = []c18Hash{
	{"sha1", sha1.New, 20},
	{"sha256", sha256.New, 32},
	{"sha512", sha512.New, 64},
}

// c18Bytes draws a byte string of 0..200 bytes whose length is biased to the
// HMAC block sizes (keys longer than the block are hashed first).
func c18Bytes(t *rapid.T, label string) []byte {
	n, _ := lenMix(t, label+".len", 200, 50, 64, 128, 20, 32)
	b, _ := gen.Bytes(t, label, n)
	return b
}

type c18PB struct {
	hash         string
	pw, salt     []byte
	iter, keyLen int
	want         []byte
}

func c18PBKDF2(rt *rapid.T, hs c18Hash) (c18PB, string, error) {
	pw := c18Bytes(rt, "password")
	salt := c18Bytes(rt, "salt")
	iter := rapid.IntRange(1, 50).Draw(rt, "iter")
	var keyLen int
	var kc string
	switch rapid.IntRange(0, 3).Draw(rt, "keyLenClass") {
	case 0, 1:
		keyLen = hs.size*rapid.IntRange(1, 200/hs.size).Draw(rt, "blocks") + rapid.IntRange(-1, 1).Draw(rt, "d")
		kc = "keyLen=k*hLen+-1"
	case 2:
		keyLen = rapid.IntRange(1, hs.size).Draw(rt, "keyLen")
		kc = "keyLen<=hLen"
	default:
		keyLen = rapid.IntRange(1, 200).Draw(rt, "keyLen")
		kc = "keyLen=uniform"
	}
	if keyLen < 1 {
		keyLen = 1
	}
	if keyLen > 200 {
		keyLen = 200
	}
	want := refnacl.PBKDF2(hs.newH, pw, salt, iter, keyLen)
	pwIn, saltIn := drawIn(rt, "pwbuf", pw), drawIn(rt, "saltbuf", salt)
	pwc, sc := pwIn.s, saltIn.s
	var got []byte
	if err := catch(func() { got = pbkdf2.Key(pwc, sc, iter, keyLen, hs.newH) }); err != nil {
		return c18PB{}, kc, fmt.Errorf("pbkdf2.Key(%s, |P|=%d, |S|=%d, c=%d, dkLen=%d): %v", hs.name, len(pw), len(salt), iter, keyLen, err)
	}
	if !bytes.Equal(got, want) {
		return c18PB{}, kc, fmt.Errorf("pbkdf2.Key(%s, P=%x, S=%x, c=%d, dkLen=%d) = %x, RFC 8018 PBKDF2 gives %x", hs.name, pw, salt, iter, keyLen, got, want)
	}
	if err := allIntact("pbkdf2.Key(password, salt)", pwIn, saltIn); err != nil {
		return c18PB{}, kc, err
	}
	return c18PB{hs.name, pw, salt, iter, keyLen, want}, kc, nil
}

// c18Hashlib checks the reference PBKDF2 values with hashlib.pbkdf2_hmac.
func c18Hashlib(cases []c18PB) (int, error) {
	py, err := exec.LookPath("python3")
	if err != nil {
		return 0, err
	}
	var in strings.Builder
	for _, x := range cases {
		fmt.Fprintf(&in, "%s %s. %s. %d %d\n", x.hash, hex.EncodeToString(x.pw), hex.EncodeToString(x.salt), x.iter, x.keyLen)
	}
	cmd := exec.Command(py, "-c", "import sys,hashlib\nfor l in sys.stdin:\n    h,p,s,c,n=l.split()\n    print(hashlib.pbkdf2_hmac(h,bytes.fromhex(p[:-1]),bytes.fromhex(s[:-1]),int(c),int(n)).hex())\n")
	cmd.Stdin = strings.NewReader(in.String())
	if d := os.Getenv("VF_RUNDIR"); d != "" {
		cmd.Dir = d
	}
	out, err := cmd.Output()
	if err != nil {
		return 0, err
	}
	lines := strings.Fields(string(out))
	if len(lines) != len(cases) {
		return 0, fmt.Errorf("hashlib returned %d values for %d cases", len(lines), len(cases))
	}
	for i, x := range cases {
		if lines[i] != hex.EncodeToString(x.want) {
			return i, fmt.Errorf("MISMATCH")
		}
	}
	return len(cases), nil
}

// c18Stream drives one HKDF reader through a drawn sequence of Read sizes and
// checks it against the position model over the single RFC 5869 output stream.
func c18Stream(rt *rapid.T, hs c18Hash, r io.Reader, okm []byte, desc string, between func() error) (classes []string, crossed, touched bool, err error) {
	limit := 255 * hs.size
	pos := 0
	// One caller buffer is reused for all reads of a history; it holds stale
	// bytes before each Read and is scribbled over after each one (the stream
	// must not depend on what the caller does with returned buffers).
	var scratch []byte
	reads := 0
	read := func(n int, class string) error {
		reads++
		if between != nil {
			if e := between(); e != nil {
				return e
			}
		}
		if cap(scratch) < n || reads%3 == 0 {
			scratch = make([]byte, n+64)
		}
		p := scratch[:n]
		copy(p, filled(n))
		defer func() {
			for i := range p {
				p[i] ^= 0x5c
			}
		}()
		var got int
		var rerr error
		if e := catch(func() { got, rerr = r.Read(p) }); e != nil {
			return fmt.Errorf("%s: Read(%d) at position %d: %v", desc, n, pos, e)
		}
		classes = append(classes, class)
		if n <= limit-pos {
			if got != n || rerr != nil {
				return fmt.Errorf("%s: Read(%d) at position %d of %d returned (%d, %v); %d bytes are still available", desc, n, pos, limit, got, rerr, limit-pos)
			}
			if !bytes.Equal(p, okm[pos:pos+n]) {
				i := firstDiff(p, okm[pos:pos+n])
				return fmt.Errorf("%s: Read(%d) at position %d: byte %d of the stream (block %d) is %02x, RFC 5869 OKM has %02x (reads so far: %v)", desc, n, pos, pos+i, (pos+i)/hs.size+1, p[i], okm[pos+i], classes)
			}
			if pos%hs.size != 0 && pos%hs.size+n > hs.size {
				crossed = true
			}
			pos += n
			if pos == limit && n > 0 {
				touched = true
			}
			return nil
		}
		touched = true
		if got != 0 || rerr == nil {
			return fmt.Errorf("%s: Read(%d) at position %d of %d (only %d left) returned (%d, %v), want (0, error)", desc, n, pos, limit, limit-pos, got, rerr)
		}
		return nil
	}

	// optionally jump close to the limit first, in one or two reads
	if rapid.IntRange(0, 2).Draw(rt, "jump") != 2 {
		back := rapid.IntRange(0, 3*hs.size+2).Draw(rt, "jumpBack")
		target := limit - back
		if rapid.Bool().Draw(rt, "jumpSplit") {
			first := rapid.IntRange(0, target).Draw(rt, "jumpFirst")
			if e := read(first, "jump"); e != nil {
				return classes, crossed, touched, e
			}
			target -= first
		}
		if e := read(target, "jump"); e != nil {
			return classes, crossed, touched, e
		}
	}
	steps := rapid.IntRange(1, 14).Draw(rt, "steps")
	for i := 0; i < steps; i++ {
		rem := limit - pos
		var n int
		var class string
		switch rapid.IntRange(0, 11).Draw(rt, "readClass") {
		case 0:
			n, class = rem+1, "rem+1"
		case 1:
			n, class = rem+rapid.IntRange(2, 2*hs.size+1).Draw(rt, "over"), "rem+k"
		case 2:
			n, class = hs.size-1, "hLen-1"
		case 3:
			n, class = hs.size+1, "hLen+1"
		case 4:
			n, class = hs.size, "hLen"
		case 5:
			n, class = 0, "zero"
		case 6:
			n, class = 1, "one"
		case 7:
			n, class = rem, "rem"
		case 8:
			n, class = hs.size*rapid.IntRange(2, 4).Draw(rt, "mult")+rapid.IntRange(-1, 1).Draw(rt, "d"), "k*hLen+-1"
		case 9:
			n, class = max(rem-rapid.IntRange(1, hs.size+1).Draw(rt, "short"), 0), "rem-k"
		default:
			n, class = rapid.IntRange(0, 3*hs.size).Draw(rt, "n"), "small"
		}
		if e := read(n, class); e != nil {
			return classes, crossed, touched, e
		}
	}
	// drain: whatever is left must still be exactly the tail of the stream,
	// then nothing more (but an empty read still succeeds)
	if rapid.Bool().Draw(rt, "drain") {
		if e := read(limit-pos, "drain"); e != nil {
			return classes, crossed, touched, e
		}
		if e := read(1, "one-past-end"); e != nil {
			return classes, crossed, touched, e
		}
		if e := read(0, "zero-at-end"); e != nil {
			return classes, crossed, touched, e
		}
	}
	return classes, crossed, touched, nil
}

func TestC18(t *testing.T) {
	c := ev.New("C18", "non-trivial: an HKDF read history that crosses a block boundary with a partially consumed block buffered, or that reaches / tries to exceed the 255*HashLen limit; PBKDF2 with dkLen not a multiple of hLen or > 1 block; distinct = (function, hash, constructor, first six read classes, limit touched) resp. (hash, keyLen class, blocks, long password/salt)")
	defer c.Flush(t)
	c.Oracle("refnacl.PBKDF2 (RFC 8018 5.2) and refnacl.HKDFExtract/Expand (RFC 5869 2.2/2.3) over crypto/hmac; KATs: RFC 6070, RFC 7914 section 11, RFC 5869 A.1/A.3/A.4")
	if err := refnacl.SelfTestKDF(); err != nil {
		c.Inconclusive(err.Error())
		t.Fatal(err)
	}
	var pbCases []c18PB
	pbCap := ev.Scale(40, 300)

	rapid.Check(t, func(rt *rapid.T) {
		stc := setStale(rt)
		hs := c18Hashes[rapid.IntRange(0, 2).Draw(rt, "hash")]
		if rapid.IntRange(0, 2).Draw(rt, "fn") == 2 {
			pb, kc, err := c18PBKDF2(rt, hs)
			if err != nil {
				rt.Fatalf("VF-VIOLATION: property=C18 %v", err)
			}
			if len(pbCases) < pbCap {
				pbCases = append(pbCases, pb)
			}
			blocks := (pb.keyLen + hs.size - 1) / hs.size
			long := len(pb.pw) > 64 || len(pb.salt) > 64
			c.Case(pb.keyLen%hs.size != 0 || blocks > 1, fmt.Sprintf("pbkdf2|%s|%s|%d|%v|%v", hs.name, kc, blocks, long, pb.iter > 1),
				"fn=pbkdf2", "hash="+hs.name, kc, fmt.Sprintf("pbkdf2:long-pw-or-salt=%v", long))
			if c.WantSample() {
				c.Sample(map[string]any{"fn": "pbkdf2", "hash": hs.name, "password": ev.Hex(pb.pw), "salt": ev.Hex(pb.salt), "iter": pb.iter, "keyLen": pb.keyLen})
			}
			return
		}
		// HKDF
		secret := c18Bytes(rt, "secret")
		var salt, info []byte
		saltClass := rapid.SampledFrom([]string{"salt=bytes", "salt=nil", "salt=empty"}).Draw(rt, "saltClass")
		switch saltClass {
		case "salt=bytes":
			salt = c18Bytes(rt, "salt")
		case "salt=empty":
			salt = []byte{}
		}
		infoClass := rapid.SampledFrom([]string{"info=bytes", "info=nil"}).Draw(rt, "infoClass")
		if infoClass == "info=bytes" {
			info = c18Bytes(rt, "info")
		}
		wantPRK := refnacl.HKDFExtract(hs.newH, secret, salt)
		var prk []byte
		if err := catch(func() { prk = hkdf.Extract(hs.newH, append([]byte{}, secret...), clone(salt)) }); err != nil {
			rt.Fatalf("VF-VIOLATION: property=C18 hkdf.Extract(%s, |IKM|=%d, %s): %v", hs.name, len(secret), saltClass, err)
		}
		if !bytes.Equal(prk, wantPRK) {
			rt.Fatalf("VF-VIOLATION: property=C18 hkdf.Extract(%s, IKM=%x, salt=%x [%s]) = %x, RFC 5869 PRK is %x", hs.name, secret, salt, saltClass, prk, wantPRK)
		}
		ctor := rapid.SampledFrom([]string{"New", "Expand", "Expand(arbitrary key)"}).Draw(rt, "ctor")
		key := wantPRK
		if ctor == "Expand(arbitrary key)" {
			key = c18Bytes(rt, "prk")
		}
		// Input slices as the caller owns them: possibly with spare capacity.
		// All readers of this case are created from the SAME slices before any
		// of them is read.
		secretIn, saltIn, infoIn, keyIn := drawIn(rt, "secretbuf", secret), drawIn(rt, "saltbuf", salt), drawIn(rt, "infobuf", info), drawIn(rt, "keybuf", key)
		mk := func(how string, k *inbuf) io.Reader {
			if how == "New" {
				return hkdf.New(hs.newH, secretIn.s, saltIn.s, infoIn.s)
			}
			return hkdf.Expand(hs.newH, k.s, infoIn.s)
		}
		r := mk(ctor, keyIn)
		okm, err := refnacl.HKDFExpand(hs.newH, key, info, 255*hs.size)
		if err != nil {
			harnessTrouble(c, rt, "reference HKDF-Expand failed: %v", err)
		}
		// sibling readers sharing the info slice (same or another PRK)
		type sib struct {
			r   io.Reader
			okm []byte
			pos int
			how string
		}
		var sibs []*sib
		nsib := rapid.IntRange(0, 2).Draw(rt, "siblings")
		key2 := append([]byte("second PRK "), wantPRK...)
		key2In := newIn(key2, 5)
		for i := 0; i < nsib; i++ {
			how := rapid.SampledFrom([]string{"Expand(other key)", "Expand", "New"}).Draw(rt, "sibHow")
			sb := &sib{how: how}
			switch how {
			case "New":
				sb.r, sb.okm = mk("New", nil), nil
				sb.okm, _ = refnacl.HKDFExpand(hs.newH, wantPRK, info, 255*hs.size)
			case "Expand":
				sb.r = mk("Expand", keyIn)
				sb.okm = okm
			default:
				sb.r = mk("Expand", key2In)
				sb.okm, _ = refnacl.HKDFExpand(hs.newH, key2, info, 255*hs.size)
			}
			sibs = append(sibs, sb)
		}
		if err := allIntact("hkdf."+ctor+" constructor", secretIn, saltIn, infoIn, keyIn, key2In); err != nil {
			rt.Fatalf("VF-VIOLATION: property=C18 %v", err)
		}
		// The secret, salt and PRK have been consumed by HMAC when the constructor
		// returns: the caller may reuse those buffers.  The info slice is kept by
		// reference by the reader (the documentation does not promise a copy), so
		// only the spare capacity behind it is overwritten, never info[0:len].
		secretIn.clobber(0x31)
		saltIn.clobber(0x32)
		keyIn.clobber(0x33)
		key2In.clobber(0x34)
		desc := fmt.Sprintf("hkdf.%s(%s, |secret|=%d, %s, %s/%d, info cap-len=%d, %d sibling readers on the same info slice)", ctor, hs.name, len(secret), saltClass, infoClass, len(info), cap(infoIn.s)-len(infoIn.s), nsib)
		step := 0
		between := func() error {
			step++
			if err := allIntact(desc+" after a Read", infoIn); err != nil {
				return err
			}
			infoIn.scribble(byte(step)) // the caller appends to its own info slice
			for _, sb := range sibs {
				n := (step*7 + hs.size/2) % (2*hs.size + 3)
				if sb.pos+n > len(sb.okm) {
					continue
				}
				p := filled(n)
				got, rerr := sb.r.Read(p)
				if got != n || rerr != nil || !bytes.Equal(p, sb.okm[sb.pos:sb.pos+n]) {
					return fmt.Errorf("%s: sibling reader hkdf.%s, read interleaved with the first one: Read(%d) at position %d returned (%d, %v) and differs from its RFC 5869 stream at byte %d", desc, sb.how, n, sb.pos, got, rerr, sb.pos+firstDiff(p, sb.okm[sb.pos:sb.pos+n]))
				}
				sb.pos += n
			}
			return nil
		}
		classes, crossed, touched, err := c18Stream(rt, hs, r, okm, desc, between)
		if err != nil {
			rt.Fatalf("VF-VIOLATION: property=C18 %v [secret=%x salt=%x info=%x key=%x]", err, secret, salt, info, key)
		}
		if err := allIntact(desc+" at the end", infoIn); err != nil {
			rt.Fatalf("VF-VIOLATION: property=C18 %v", err)
		}
		c.Class(fmt.Sprintf("hkdf:siblings=%d", nsib))
		if cap(infoIn.s) > len(infoIn.s) {
			c.Class("hkdf:info-has-spare-capacity")
		}
		head := classes
		if len(head) > 6 {
			head = head[:6]
		}
		c.Case(crossed || touched, fmt.Sprintf("hkdf|%s|%s|%s|%v|%v", hs.name, ctor, strings.Join(head, ","), crossed, touched),
			"fn=hkdf", "hash="+hs.name, "ctor="+ctor, stc, saltClass, infoClass, fmt.Sprintf("hkdf:crossed-partial-block=%v", crossed), fmt.Sprintf("hkdf:limit-touched=%v", touched))
		for _, cl := range classes {
			c.Class("read:" + cl)
		}
		if c.WantSample() {
			c.Sample(map[string]any{"fn": "hkdf." + ctor, "hash": hs.name, "secret": ev.Hex(secret), "salt": saltClass, "info_len": len(info), "reads": classes})
		}
	})

	// Directed: for every hash, walk the whole stream with one fixed read size
	// (every size 1..2*hLen+1 in thorough, a boundary set in quick), then one
	// byte past the end.
	idx, total := 0, 0
	for _, hs := range c18Hashes {
		var sizes []int
		if ev.Thorough() {
			for s := 1; s <= 2*hs.size+1; s++ {
				sizes = append(sizes, s)
			}
		} else {
			sizes = []int{1, 2, hs.size - 1, hs.size, hs.size + 1, 2*hs.size - 1, 2 * hs.size, 2*hs.size + 1, 255, 256, 257, 1000}
		}
		secret, salt, info := []byte("directed secret"), []byte("directed salt"), []byte("directed info")
		okm, _ := refnacl.HKDFExpand(hs.newH, refnacl.HKDFExtract(hs.newH, secret, salt), info, 255*hs.size)
		limit := 255 * hs.size
		for _, sz := range sizes {
			idx++
			total++
			if !ev.Mine(idx) {
				continue
			}
			r := hkdf.New(hs.newH, secret, salt, info)
			pos := 0
			for pos+sz <= limit {
				p := make([]byte, sz)
				n, err := r.Read(p)
				if n != sz || err != nil || !bytes.Equal(p, okm[pos:pos+sz]) {
					what := fmt.Sprintf("hkdf(%s): reading the stream in %d-byte reads: read at position %d returned (%d, %v) / wrong bytes", hs.name, sz, pos, n, err)
					c.Violation(what, "")
					t.Fatalf("VF-VIOLATION: property=C18 %s", what)
				}
				pos += sz
			}
			// the next full-size read would overshoot (unless sz divides the limit): it must fail and consume nothing
			rem := limit - pos
			p := make([]byte, rem+1)
			if n, err := r.Read(p); n != 0 || err == nil {
				what := fmt.Sprintf("hkdf(%s): Read(%d) with %d bytes left returned (%d, %v), want (0, error)", hs.name, rem+1, rem, n, err)
				c.Violation(what, "")
				t.Fatalf("VF-VIOLATION: property=C18 %s", what)
			}
			p = make([]byte, rem)
			if n, err := r.Read(p); n != rem || err != nil || !bytes.Equal(p, okm[pos:]) {
				what := fmt.Sprintf("hkdf(%s): after a refused read, Read(%d) of the last %d bytes returned (%d, %v) / wrong bytes (read size %d)", hs.name, rem, rem, n, err, sz)
				c.Violation(what, "")
				t.Fatalf("VF-VIOLATION: property=C18 %s", what)
			}
			if n, err := r.Read(make([]byte, 1)); n != 0 || err == nil {
				what := fmt.Sprintf("hkdf(%s): Read(1) after 255*HashLen bytes returned (%d, %v)", hs.name, n, err)
				c.Violation(what, "")
				t.Fatalf("VF-VIOLATION: property=C18 %s", what)
			}
			c.Case(true, fmt.Sprintf("table|%s|%d", hs.name, sz), "table:fixed-read-size-to-limit")
		}
	}
	c.Exhaustive("sha1/sha256/sha512 x fixed read size walked over the whole 255*HashLen stream, then refused overshoot, exact remainder, refused extra byte", total)

	// Directed: two readers created from one info slice that has spare capacity,
	// read alternately, with the caller appending to its info slice in between.
	for _, hs := range c18Hashes {
		for _, extra := range []int{0, 1, 8} {
			info := newIn([]byte("shared context info"), extra)
			prkA, prkB := bytes.Repeat([]byte{0xa1}, hs.size), bytes.Repeat([]byte{0xb2}, hs.size)
			ra, rb := hkdf.Expand(hs.newH, prkA, info.s), hkdf.Expand(hs.newH, prkB, info.s)
			wa, _ := refnacl.HKDFExpand(hs.newH, prkA, info.orig, 6*hs.size)
			wb, _ := refnacl.HKDFExpand(hs.newH, prkB, info.orig, 6*hs.size)
			for blk := 0; blk < 6; blk++ {
				for k, r := range []io.Reader{ra, rb} {
					want := [][]byte{wa, wb}[k][blk*hs.size : (blk+1)*hs.size]
					p := filled(hs.size)
					n, err := r.Read(p)
					if n != hs.size || err != nil || !bytes.Equal(p, want) || !info.intact() {
						what := fmt.Sprintf("hkdf.Expand(%s): two readers created from one info slice (cap-len=%d) and read alternately: reader %d block %d returned (%d, %v), stream correct: %v, info slice and its spare capacity untouched: %v", hs.name, extra, k, blk+1, n, err, bytes.Equal(p, want), info.intact())
						c.Violation(what, "")
						t.Fatalf("VF-VIOLATION: property=C18 %s", what)
					}
					info.scribble(byte(16*blk + k))
				}
			}
			c.Case(true, fmt.Sprintf("table|shared-info|%s|%d", hs.name, extra), "table:two-readers-one-info-slice")
		}
	}

	c18Concurrent(c, t)

	if k, _ := ev.Shard(); k == 0 && len(pbCases) > 0 {
		n, err := c18Hashlib(pbCases)
		switch {
		case err == nil:
			c.Oracle("python3 hashlib.pbkdf2_hmac (OpenSSL), batched co-process")
			c.ClassN("hashlib:compared", n)
		case err.Error() == "MISMATCH":
			msg := fmt.Sprintf("hashlib.pbkdf2_hmac and the reference disagree (case %d: %s c=%d dkLen=%d)", n, pbCases[n].hash, pbCases[n].iter, pbCases[n].keyLen)
			c.Inconclusive(msg)
			t.Fatalf("VF-INCONCLUSIVE: %s", msg)
		default:
			c.Assumption("python3 hashlib.pbkdf2_hmac differential skipped: " + err.Error())
		}
	}
}
