#!/usr/bin/env python3-vt
"""Validate MANIFEST.json and evidence/*.json against the given schemas (tooling venv has jsonschema)."""
import json, glob, sys, jsonschema
bad = 0
jsonschema.validate(json.load(open('/verif/MANIFEST.json')), json.load(open('/root/.vp/MANIFEST.schema.json')))
es = json.load(open('/root/.vp/EVIDENCE.schema.json'))
for p in sorted(glob.glob('/verif/evidence/*.json')):
    try:
        jsonschema.validate(json.load(open(p)), es)
    except Exception as e:
        bad += 1
        print("INVALID", p, str(e)[:300])
print("validated manifest +", len(glob.glob('/verif/evidence/*.json')), "evidence files; invalid:", bad)
sys.exit(1 if bad else 0)
